/-
Tie G (panic-aware) for internal/color/brush/brush.go: `Colorfy` with `paintRemote`, `paintClient`, `paintServer`,
`paintSeverity`, `paintDefault` as translated from the working tree on this run.  `color.PaintWithAttr(sb, text, …)` is
the parameter `ext.paint` (what the builder holds afterwards); the colours are not part of the translation.  The
theorems: `Colorfy` never indexes out of range, and it never alters text — whatever `paint` does, as long as removing
the paint from `paint sb text` leaves the unpainted `sb` followed by `text`, removing the paint from `Colorfy line`
leaves `line`.
-/
import DtailModel.Generated.Code
import DtailModel.Lemmas.GoRT
import DtailModel.Lemmas.Color
import DtailModel.Lemmas.GenQuery
set_option autoImplicit false
namespace Dtail.GenBrush
open Dtail Dtail.Go Dtail.GenQuery

theorem splitN_length_le (sep : UInt8) (n : Nat) (s : Bytes) : (splitN sep n s).length ≤ n := by
  induction n using Nat.strongRecOn generalizing s with
  | _ n ih =>
    match n with
    | 0 => simp [splitN]
    | 1 => simp [splitN]
    | k + 2 =>
      simp only [splitN]
      cases splitFirst sep s with
      | none => simp
      | some pr => simp only [List.length_cons]; have := ih (k + 1) (by omega) pr.2; omega

/-- what is assumed about `color.PaintWithAttr`: `strip` removes the paint -/
structure Strips (ext : Ext) (strip : GoString → GoString) : Prop where
  nil : strip [] = []
  paint : ∀ sb t, strip (ext.paint sb t) = strip sb ++ t

/-- the function returned the builder, and what it added to it is, unpainted, `text` -/
def Adds (strip : GoString → GoString) (sb text : GoString) (r : Outcome GoString) : Prop :=
  ∃ out, r = .ok out ∧ strip out = strip sb ++ text

theorem paintDefault_adds (ext : Ext) (strip : GoString → GoString) (hs : Strips ext strip) (sb line : GoString) :
    strip (Gen.Brush.paintDefault ext sb line) = strip sb ++ line := hs.paint sb line

theorem paintSeverity_adds (ext : Ext) (strip : GoString → GoString) (hs : Strips ext strip) (sb text : GoString) :
    ((Gen.Brush.paintSeverity ext sb text).2 = true → strip (Gen.Brush.paintSeverity ext sb text).1 = strip sb ++ text) ∧
    ((Gen.Brush.paintSeverity ext sb text).2 = false → (Gen.Brush.paintSeverity ext sb text).1 = sb) := by
  unfold Gen.Brush.paintSeverity
  split
  · exact ⟨fun _ => hs.paint sb text, fun h => by simp at h⟩
  · split
    · exact ⟨fun _ => hs.paint sb text, fun h => by simp at h⟩
    · split
      · exact ⟨fun _ => hs.paint sb text, fun h => by simp at h⟩
      · exact ⟨fun h => by simp at h, fun _ => rfl⟩

theorem idx0 {α : Type} [GoZero α] (a : α) (l : List α) : (GoIndex.idx (a :: l) (0 : Int) : α) = a := rfl
theorem idx1 {α : Type} [GoZero α] (a b : α) (l : List α) : (GoIndex.idx (a :: b :: l) (1 : Int) : α) = b := rfl
theorem idx2 {α : Type} [GoZero α] (a b c : α) (l : List α) : (GoIndex.idx (a :: b :: c :: l) (2 : Int) : α) = c := rfl
theorem idx3 {α : Type} [GoZero α] (a b c d : α) (l : List α) : (GoIndex.idx (a :: b :: c :: d :: l) (3 : Int) : α) = d := rfl
theorem idx4 {α : Type} [GoZero α] (a b c d e : α) (l : List α) : (GoIndex.idx (a :: b :: c :: d :: e :: l) (4 : Int) : α) = e := rfl
theorem idx5 {α : Type} [GoZero α] (a b c d e g : α) (l : List α) : (GoIndex.idx (a :: b :: c :: d :: e :: g :: l) (5 : Int) : α) = g := rfl

/-- the last field: painted by its severity, or plainly — either way it is added unchanged -/
theorem last_field (ext : Ext) (strip : GoString → GoString) (hs : Strips ext strip) (sb f : GoString) :
    strip (if (Gen.Brush.paintSeverity ext sb f).2 = true then (Gen.Brush.paintSeverity ext sb f).1 else ext.paint (Gen.Brush.paintSeverity ext sb f).1 f)
      = strip sb ++ f := by
  obtain ⟨h1, h2⟩ := paintSeverity_adds ext strip hs sb f
  by_cases hc : (Gen.Brush.paintSeverity ext sb f).2 = true
  · rw [if_pos hc]; exact h1 hc
  · rw [if_neg hc]
    have hf : (Gen.Brush.paintSeverity ext sb f).2 = false := by simpa using hc
    rw [h2 hf]; exact hs.paint sb f

theorem list_len3 {α : Type} (l : List α) (h : l.length = 3) : ∃ a b c, l = [a, b, c] := by
  match l, h with
  | [a, b, c], _ => exact ⟨a, b, c, rfl⟩

theorem list_len6 {α : Type} (l : List α) (h : l.length = 6) : ∃ a b c d e f, l = [a, b, c, d, e, f] := by
  match l, h with
  | [a, b, c, d, e, f], _ => exact ⟨a, b, c, d, e, f, rfl⟩

theorem ok_ite {α : Type} (c : Prop) [Decidable c] (a b : α) :
    (if c then Outcome.ok a else Outcome.ok b) = Outcome.ok (if c then a else b) := by
  split <;> rfl

/-- `paintClient` / `paintServer`: three fields, or painted as plain text -/
theorem paintClient_adds (ext : Ext) (strip : GoString → GoString) (hs : Strips ext strip) (sb line : GoString) :
    Adds strip sb line (Gen.Brush.paintClient ext sb line) := by
  unfold Gen.Brush.paintClient
  dsimp only
  by_cases h3 : decide ((GoLen.len (splitN (124 : UInt8) 3 line) : Int) < 3) = true
  · rw [if_pos h3]
    exact ⟨_, rfl, hs.paint sb line⟩
  · rw [if_neg h3]
    have hle := splitN_length_le (124 : UInt8) 3 line
    have hlen : (splitN (124 : UInt8) 3 line).length = 3 := by
      simp only [len_list, decide_eq_true_eq] at h3; omega
    obtain ⟨f0, f1, f2, hsp⟩ := list_len3 _ hlen
    have hj := joinP_splitN 2 line
    have hsp' : splitN PIPE (2 + 1) line = [f0, f1, f2] := hsp
    rw [hsp'] at hj
    simp only [joinP] at hj
    rw [hsp]
    have g0 : goInRange [f0, f1, f2] 0 = true := rfl
    have g1 : goInRange [f0, f1, f2] 1 = true := rfl
    have g2 : goInRange [f0, f1, f2] 2 = true := rfl
    simp only [g0, g1, g2, if_true, idx0, idx1, idx2]
    rw [ok_ite]
    refine ⟨_, rfl, ?_⟩
    rw [last_field ext strip hs]
    simp only [hs.paint, List.append_assoc]
    rw [← hj]
    simp [PIPE]

theorem paintServer_adds (ext : Ext) (strip : GoString → GoString) (hs : Strips ext strip) (sb line : GoString) :
    Adds strip sb line (Gen.Brush.paintServer ext sb line) := by
  unfold Gen.Brush.paintServer
  dsimp only
  by_cases h3 : decide ((GoLen.len (splitN (124 : UInt8) 3 line) : Int) < 3) = true
  · rw [if_pos h3]
    exact ⟨_, rfl, hs.paint sb line⟩
  · rw [if_neg h3]
    have hle := splitN_length_le (124 : UInt8) 3 line
    have hlen : (splitN (124 : UInt8) 3 line).length = 3 := by
      simp only [len_list, decide_eq_true_eq] at h3; omega
    obtain ⟨f0, f1, f2, hsp⟩ := list_len3 _ hlen
    have hj := joinP_splitN 2 line
    have hsp' : splitN PIPE (2 + 1) line = [f0, f1, f2] := hsp
    rw [hsp'] at hj
    simp only [joinP] at hj
    rw [hsp]
    have g0 : goInRange [f0, f1, f2] 0 = true := rfl
    have g1 : goInRange [f0, f1, f2] 1 = true := rfl
    have g2 : goInRange [f0, f1, f2] 2 = true := rfl
    simp only [g0, g1, g2, if_true, idx0, idx1, idx2]
    rw [ok_ite]
    refine ⟨_, rfl, ?_⟩
    rw [last_field ext strip hs]
    simp only [hs.paint, List.append_assoc]
    rw [← hj]
    simp [PIPE]

/-- `paintRemote`: six fields, or painted as plain text -/
theorem paintRemote_adds (ext : Ext) (strip : GoString → GoString) (hs : Strips ext strip) (sb line : GoString) :
    Adds strip sb line (Gen.Brush.paintRemote ext sb line) := by
  unfold Gen.Brush.paintRemote
  dsimp only
  by_cases h6 : decide ((GoLen.len (splitN (124 : UInt8) 6 line) : Int) < 6) = true
  · rw [if_pos h6]
    exact ⟨_, rfl, hs.paint sb line⟩
  · rw [if_neg h6]
    have hle := splitN_length_le (124 : UInt8) 6 line
    have hlen : (splitN (124 : UInt8) 6 line).length = 6 := by
      simp only [len_list, decide_eq_true_eq] at h6; omega
    obtain ⟨f0, f1, f2, f3, f4, f5, hsp⟩ := list_len6 _ hlen
    have hj := joinP_splitN 5 line
    have hsp' : splitN PIPE (5 + 1) line = [f0, f1, f2, f3, f4, f5] := hsp
    rw [hsp'] at hj
    simp only [joinP] at hj
    rw [hsp]
    have g0 : goInRange [f0, f1, f2, f3, f4, f5] 0 = true := rfl
    have g1 : goInRange [f0, f1, f2, f3, f4, f5] 1 = true := rfl
    have g2 : goInRange [f0, f1, f2, f3, f4, f5] 2 = true := rfl
    have g3 : goInRange [f0, f1, f2, f3, f4, f5] 3 = true := rfl
    have g4 : goInRange [f0, f1, f2, f3, f4, f5] 4 = true := rfl
    have g5 : goInRange [f0, f1, f2, f3, f4, f5] 5 = true := rfl
    simp only [g0, g1, g2, g3, g4, g5, if_true, idx0, idx1, idx2, idx3, idx4, idx5]
    have hfin : ∀ sb', strip sb' = strip sb ++ (f0 ++ [124] ++ f1 ++ [124] ++ f2 ++ [124] ++ f3 ++ [124] ++ f4 ++ [124]) →
        Adds strip sb line (if (Gen.Brush.paintSeverity ext sb' f5).2 = true then Outcome.ok (Gen.Brush.paintSeverity ext sb' f5).1
          else Outcome.ok (ext.paint (Gen.Brush.paintSeverity ext sb' f5).1 f5)) := by
      intro sb' hsb
      rw [ok_ite]
      refine ⟨_, rfl, ?_⟩
      rw [last_field ext strip hs, hsb, ← hj]
      simp [PIPE]
    split <;> exact hfin _ (by simp only [hs.paint, List.append_assoc])

/-- **`Colorfy` never panics and never alters text** -/
theorem Colorfy_lossless (ext : Ext) (strip : GoString → GoString) (hs : Strips ext strip) (line : GoString) :
    ∃ out, Gen.Brush.Colorfy ext line = .ok out ∧ strip out = line := by
  unfold Gen.Brush.Colorfy
  dsimp only
  have h0 : strip ([] : GoString) ++ line = line := by rw [hs.nil]; rfl
  split
  · obtain ⟨out, ho, hst⟩ := paintRemote_adds ext strip hs [] line
    rw [ho]; exact ⟨out, rfl, by rw [hst, h0]⟩
  · split
    · obtain ⟨out, ho, hst⟩ := paintClient_adds ext strip hs [] line
      rw [ho]; exact ⟨out, rfl, by rw [hst, h0]⟩
    · split
      · obtain ⟨out, ho, hst⟩ := paintServer_adds ext strip hs [] line
        rw [ho]; exact ⟨out, rfl, by rw [hst, h0]⟩
      · exact ⟨_, rfl, by rw [paintDefault_adds ext strip hs, h0]⟩

end Dtail.GenBrush
