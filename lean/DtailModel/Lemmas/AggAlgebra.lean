/-
The column algebra of the aggregation model (helper lemmas; the property theorems that restate
them are in Props/C05.lean).
-/
import DtailModel.Model.Aggregate
namespace Dtail.C05
open Dtail

/-- a column state as an operation produces it -/
def Col.Wf (op : AggOp) (c : Col) : Prop :=
  match op with
  | .count | .sum | .avg | .min | .max => c.str = none
  | .last => c.num = none
  | .len => (c.num.isSome ↔ c.str.isSome)
  | .undef => c = {}

/-- merging is associative for every aggregation operation -/
theorem combine_assoc (op : AggOp) (a b c : Col) :
    combine op (combine op a b) c = combine op a (combine op b c) := by
  obtain ⟨an, as⟩ := a; obtain ⟨bn, bs⟩ := b; obtain ⟨cn, cs⟩ := c
  cases op <;> cases an <;> cases bn <;> cases cn <;> cases as <;> cases bs <;> cases cs <;>
    simp [combine, addNum, minNum, maxNum, Int.add_assoc] <;> (try split) <;> (try split) <;> (try split) <;> omega

/-- for count, sum, avg, min and max merging is commutative: partial results may arrive in
    any order -/
theorem combine_comm (op : AggOp) (a b : Col)
    (hop : op = .count ∨ op = .sum ∨ op = .avg ∨ op = .min ∨ op = .max) :
    combine op a b = combine op b a := by
  obtain ⟨an, as⟩ := a; obtain ⟨bn, bs⟩ := b
  rcases hop with rfl | rfl | rfl | rfl | rfl <;> cases an <;> cases bn <;>
    simp [combine, addNum, minNum, maxNum, Int.add_comm] <;> (try split) <;> (try split) <;> omega

/-- the empty column is a right identity, and a left identity on well-formed columns -/
theorem combine_empty (op : AggOp) (a : Col) (h : Col.Wf op a) :
    combine op a {} = a ∧ combine op {} a = a := by
  obtain ⟨an, as⟩ := a
  cases op <;> cases an <;> cases as <;> simp_all [combine, addNum, minNum, maxNum, Col.Wf]

theorem combine_wf (op : AggOp) (a b : Col) (ha : Col.Wf op a) (hb : Col.Wf op b) :
    Col.Wf op (combine op a b) := by
  obtain ⟨an, as⟩ := a; obtain ⟨bn, bs⟩ := b
  cases op <;> cases an <;> cases bn <;> cases as <;> cases bs <;> simp_all [combine, Col.Wf]

/-- the column after a sequence of contributions (lines of one group, in order) -/
def colFold (op : AggOp) (ks : List Col) : Col := ks.foldl (combine op) {}

theorem foldl_combine_from (op : AggOp) (c : Col) (ks : List Col) (hc : Col.Wf op c)
    (hk : ∀ k ∈ ks, Col.Wf op k) :
    ks.foldl (combine op) c = combine op c (colFold op ks) ∧ Col.Wf op (ks.foldl (combine op) c) := by
  induction ks generalizing c with
  | nil => exact ⟨((combine_empty op c hc).1).symm, hc⟩
  | cons k ks ih =>
    have hk0 := hk k (by simp)
    have hks : ∀ x ∈ ks, Col.Wf op x := fun x hx => hk x (List.mem_cons_of_mem _ hx)
    have hwf0 : Col.Wf op ({} : Col) := by cases op <;> simp [Col.Wf]
    have h1 := ih (combine op c k) (combine_wf op c k hc hk0) hks
    have h2 := ih (combine op {} k) (combine_wf op {} k hwf0 hk0) hks
    refine ⟨?_, h1.2⟩
    simp only [List.foldl_cons, colFold]
    rw [h1.1, h2.1, (combine_empty op k hk0).2, combine_assoc]

/-- Per-line aggregation is a homomorphism: aggregating the lines of two parts one after the
    other equals merging the two partial aggregates. -/
theorem colFold_append (op : AggOp) (l1 l2 : List Col)
    (h1 : ∀ k ∈ l1, Col.Wf op k) (h2 : ∀ k ∈ l2, Col.Wf op k) :
    colFold op (l1 ++ l2) = combine op (colFold op l1) (colFold op l2) := by
  have hwf0 : Col.Wf op ({} : Col) := by cases op <;> simp [Col.Wf]
  unfold colFold
  rw [List.foldl_append]
  exact (foldl_combine_from op _ l2 (foldl_combine_from op {} l1 hwf0 h1).2 h2).1

/-- what a line contributes is well-formed for its operation, so the theorems above apply to
    every contribution the model's `aggLine` ever combines -/
theorem contribution_wf (op : AggOp) (fs : Fields) (field : Bytes) (c : Col)
    (h : contribution op fs field = some c) : Col.Wf op c := by
  unfold contribution at h
  cases hg : getField fs field with
  | none => simp [hg] at h
  | some v =>
    simp only [hg] at h
    cases op <;> simp at h <;> (try (subst h; simp [Col.Wf]))
    all_goals (obtain ⟨n, _, rfl⟩ := h; simp [Col.Wf])

end Dtail.C05
