/-
Tie G for internal/mapr/aggregateset.go: the translated `AggregateSet.Aggregate` /
`AggregateSet.Merge` (and the helpers `addFloat`, `addFloatMin`, `addFloatMax`, `setString`,
`setFloat`) of `Generated/Code.lean` refine the column algebra of `Model/Aggregate.lean`
(`contribution`, `combine`, `mergeSet`) on which the C05 theorems are stated.
-/
import DtailModel.Generated.Code
import DtailModel.Lemmas.GoRT
import DtailModel.Model.Aggregate
namespace Dtail.GenAgg
open Dtail Dtail.Go Dtail.Gen.Mapr

/-- the source's numbering of the aggregation operations -/
def opCode : AggOp → Int
  | .undef => 0 | .count => 1 | .sum => 2 | .min => 3 | .max => 4 | .last => 5 | .avg => 6 | .len => 7

/-- … is the iota order of internal/mapr/selectcondition.go as translated on this run -/
theorem opCode_is_source_iota :
    opCode .undef = UndefAggregateOperation ∧ opCode .count = Count ∧ opCode .sum = Gen.Mapr.Sum ∧ opCode .min = Gen.Mapr.Min ∧
    opCode .max = Gen.Mapr.Max ∧ opCode .last = Last ∧ opCode .avg = Avg ∧ opCode .len = Len :=
  ⟨rfl, rfl, rfl, rfl, rfl, rfl, rfl, rfl⟩

/-- the column of the model that a translated aggregate set holds under a storage key -/
def colOf (g : AggregateSet) (k : Bytes) : Col := ⟨g.FValues.get? k, g.SValues.get? k⟩

/-- a column state as an operation produces it (the `Col.Wf` of Props/C05) -/
def ColWf (op : AggOp) (c : Col) : Prop :=
  match op with
  | .count | .sum | .avg | .min | .max => c.str = none
  | .last => c.num = none
  | .len => (c.num.isSome ↔ c.str.isSome)
  | .undef => c = {}

/-- what a field value contributes to a column -/
def contribOf (op : AggOp) (v : Bytes) : Option Col :=
  match op with
  | .count => some ⟨some 1, none⟩
  | .last => some ⟨none, some v⟩
  | .len => some ⟨some v.length, some v⟩
  | .sum | .avg | .min | .max => (parseNum v).map fun n => ⟨some n, none⟩
  | .undef => none

theorem contribution_eq (op : AggOp) (fs : Fields) (field : Bytes) :
    contribution op fs field = (getField fs field).bind (contribOf op) := by
  unfold contribution contribOf
  cases getField fs field <;> cases op <;> rfl

/-- the assumed behaviour of `strconv.ParseFloat` on the values the model covers -/
def ParseFloatIs (ext : Ext) : Prop :=
  ∀ v, match parseNum v with
    | some n => ext.parseFloat v = (n, none)
    | none => (ext.parseFloat v).2 ≠ none

theorem addFloat_col (ext : Ext) (g : AggregateSet) (k : Bytes) (x : Int) :
    colOf (AggregateSet.addFloat ext g k x) k = ⟨addNum (colOf g k).num (some x), (colOf g k).str⟩ ∧
    (∀ k', k' ≠ k → colOf (AggregateSet.addFloat ext g k x) k' = colOf g k') ∧
    (AggregateSet.addFloat ext g k x).Samples = g.Samples := by
  unfold AggregateSet.addFloat
  cases h : g.FValues.get? k <;>
    simp [GoIndex.idxOk, GoIndex.idx, GoIndex.upd, h, colOf, GoMap.get?_set_eq, addNum] <;>
    intro k' hk' <;> exact GoMap.get?_set_ne _ _ _ _ hk'

theorem addFloatMin_col (ext : Ext) (g : AggregateSet) (k : Bytes) (x : Int) :
    colOf (AggregateSet.addFloatMin ext g k x) k = ⟨minNum (colOf g k).num (some x), (colOf g k).str⟩ ∧
    (∀ k', k' ≠ k → colOf (AggregateSet.addFloatMin ext g k x) k' = colOf g k') ∧
    (AggregateSet.addFloatMin ext g k x).Samples = g.Samples := by
  unfold AggregateSet.addFloatMin
  cases h : g.FValues.get? k with
  | none =>
    simp [GoIndex.idxOk, GoIndex.upd, h, colOf, GoMap.get?_set_eq, minNum]
    intro k' hk'; exact GoMap.get?_set_ne _ _ _ _ hk'
  | some f =>
    by_cases hgt : f > x
    · simp [GoIndex.idxOk, GoIndex.upd, h, colOf, GoMap.get?_set_eq, minNum, hgt]
      intro k' hk'; exact GoMap.get?_set_ne _ _ _ _ hk'
    · simp [GoIndex.idxOk, h, colOf, minNum, hgt]

theorem addFloatMax_col (ext : Ext) (g : AggregateSet) (k : Bytes) (x : Int) :
    colOf (AggregateSet.addFloatMax ext g k x) k = ⟨maxNum (colOf g k).num (some x), (colOf g k).str⟩ ∧
    (∀ k', k' ≠ k → colOf (AggregateSet.addFloatMax ext g k x) k' = colOf g k') ∧
    (AggregateSet.addFloatMax ext g k x).Samples = g.Samples := by
  unfold AggregateSet.addFloatMax
  cases h : g.FValues.get? k with
  | none =>
    simp [GoIndex.idxOk, GoIndex.upd, h, colOf, GoMap.get?_set_eq, maxNum]
    intro k' hk'; exact GoMap.get?_set_ne _ _ _ _ hk'
  | some f =>
    by_cases hlt : f < x
    · simp [GoIndex.idxOk, GoIndex.upd, h, colOf, GoMap.get?_set_eq, maxNum, hlt]
      intro k' hk'; exact GoMap.get?_set_ne _ _ _ _ hk'
    · simp [GoIndex.idxOk, h, colOf, maxNum, hlt]

theorem setString_col (ext : Ext) (g : AggregateSet) (k v : Bytes) :
    colOf (AggregateSet.setString ext g k v) k = ⟨(colOf g k).num, some v⟩ ∧
    (∀ k', k' ≠ k → colOf (AggregateSet.setString ext g k v) k' = colOf g k') ∧
    (AggregateSet.setString ext g k v).Samples = g.Samples := by
  unfold AggregateSet.setString
  simp [GoIndex.upd, colOf, GoMap.get?_set_eq]
  intro k' hk'; exact GoMap.get?_set_ne _ _ _ _ hk'

theorem setFloat_col (ext : Ext) (g : AggregateSet) (k : Bytes) (x : Int) :
    colOf (AggregateSet.setFloat ext g k x) k = ⟨some x, (colOf g k).str⟩ ∧
    (∀ k', k' ≠ k → colOf (AggregateSet.setFloat ext g k x) k' = colOf g k') ∧
    (AggregateSet.setFloat ext g k x).Samples = g.Samples := by
  unfold AggregateSet.setFloat
  simp [GoIndex.upd, colOf, GoMap.get?_set_eq]
  intro k' hk'; exact GoMap.get?_set_ne _ _ _ _ hk'

end Dtail.GenAgg
