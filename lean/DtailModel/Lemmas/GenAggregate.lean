/-
Tie G for internal/mapr/aggregateset.go: the translated `AggregateSet.Aggregate` /
`AggregateSet.Merge` (and the helpers `addFloat`, `addFloatMin`, `addFloatMax`, `setString`,
`setFloat`) of `Generated/Code.lean` refine the column algebra of `Model/Aggregate.lean`
(`contribution`, `combine`, `mergeSet`) on which the C05 theorems are stated.
-/
import DtailModel.Generated.Code
import DtailModel.Lemmas.GoRT
import DtailModel.Model.Aggregate
import DtailModel.Model.AggregateOps
set_option autoImplicit false
namespace Dtail.GenAgg
open Dtail Dtail.Go Dtail.Gen.Mapr

/-- … is the iota order of internal/mapr/selectcondition.go as translated on this run -/
theorem opCode_is_source_iota :
    opCode .undef = UndefAggregateOperation ∧ opCode .count = Count ∧ opCode .sum = Gen.Mapr.Sum ∧ opCode .min = Gen.Mapr.Min ∧
    opCode .max = Gen.Mapr.Max ∧ opCode .last = Last ∧ opCode .avg = Avg ∧ opCode .len = Len :=
  ⟨rfl, rfl, rfl, rfl, rfl, rfl, rfl, rfl⟩

/-- the column of the model that a translated aggregate set holds under a storage key -/
def colOf (g : AggregateSet) (k : Bytes) : Col := ⟨g.FValues.get? k, g.SValues.get? k⟩

/-- a column state as an operation produces it (the `Col.Wf` of Props/C05) -/
def ColWf (op : AggOp) (c : Col) : Prop :=
  match op with
  | .count | .sum | .avg | .min | .max => c.str = none
  | .last => c.num = none
  | .len => (c.num.isSome ↔ c.str.isSome)
  | .undef => c = {}

/-- what a field value contributes to a column -/
def contribOf (op : AggOp) (v : Bytes) : Option Col :=
  match op with
  | .count => some ⟨some 1, none⟩
  | .last => some ⟨none, some v⟩
  | .len => some ⟨some v.length, some v⟩
  | .sum | .avg | .min | .max => (parseNum v).map fun n => ⟨some n, none⟩
  | .undef => none

theorem contribution_eq (op : AggOp) (fs : Fields) (field : Bytes) :
    contribution op fs field = (getField fs field).bind (contribOf op) := by
  unfold contribution contribOf
  cases getField fs field <;> cases op <;> rfl

/-- the assumed behaviour of `strconv.ParseFloat` on the values the model covers -/
def ParseFloatIs (ext : Ext) : Prop :=
  ∀ v, match parseNum v with
    | some n => ext.parseFloat v = (n, none)
    | none => (ext.parseFloat v).2 ≠ none

theorem addFloat_col (ext : Ext) (g : AggregateSet) (k : Bytes) (x : Int) :
    colOf (AggregateSet.addFloat ext g k x) k = ⟨addNum (colOf g k).num (some x), (colOf g k).str⟩ ∧
    (∀ k', k' ≠ k → colOf (AggregateSet.addFloat ext g k x) k' = colOf g k') ∧
    (AggregateSet.addFloat ext g k x).Samples = g.Samples := by
  unfold AggregateSet.addFloat
  cases h : g.FValues.get? k <;>
    simp [GoIndex.idxOk, GoIndex.idx, GoIndex.upd, h, colOf, GoMap.get?_set_eq, addNum] <;>
    intro k' hk' <;> exact GoMap.get?_set_ne _ _ _ _ hk'

theorem addFloatMin_col (ext : Ext) (g : AggregateSet) (k : Bytes) (x : Int) :
    colOf (AggregateSet.addFloatMin ext g k x) k = ⟨minNum (colOf g k).num (some x), (colOf g k).str⟩ ∧
    (∀ k', k' ≠ k → colOf (AggregateSet.addFloatMin ext g k x) k' = colOf g k') ∧
    (AggregateSet.addFloatMin ext g k x).Samples = g.Samples := by
  unfold AggregateSet.addFloatMin
  cases h : g.FValues.get? k with
  | none =>
    simp [GoIndex.idxOk, GoIndex.upd, h, colOf, GoMap.get?_set_eq, minNum]
    intro k' hk'; exact GoMap.get?_set_ne _ _ _ _ hk'
  | some f =>
    by_cases hgt : f > x
    · simp [GoIndex.idxOk, GoIndex.upd, h, colOf, GoMap.get?_set_eq, minNum, hgt]
      intro k' hk'; exact GoMap.get?_set_ne _ _ _ _ hk'
    · simp [GoIndex.idxOk, h, colOf, minNum, hgt]

theorem addFloatMax_col (ext : Ext) (g : AggregateSet) (k : Bytes) (x : Int) :
    colOf (AggregateSet.addFloatMax ext g k x) k = ⟨maxNum (colOf g k).num (some x), (colOf g k).str⟩ ∧
    (∀ k', k' ≠ k → colOf (AggregateSet.addFloatMax ext g k x) k' = colOf g k') ∧
    (AggregateSet.addFloatMax ext g k x).Samples = g.Samples := by
  unfold AggregateSet.addFloatMax
  cases h : g.FValues.get? k with
  | none =>
    simp [GoIndex.idxOk, GoIndex.upd, h, colOf, GoMap.get?_set_eq, maxNum]
    intro k' hk'; exact GoMap.get?_set_ne _ _ _ _ hk'
  | some f =>
    by_cases hlt : f < x
    · simp [GoIndex.idxOk, GoIndex.upd, h, colOf, GoMap.get?_set_eq, maxNum, hlt]
      intro k' hk'; exact GoMap.get?_set_ne _ _ _ _ hk'
    · simp [GoIndex.idxOk, h, colOf, maxNum, hlt]

theorem setString_col (ext : Ext) (g : AggregateSet) (k v : Bytes) :
    colOf (AggregateSet.setString ext g k v) k = ⟨(colOf g k).num, some v⟩ ∧
    (∀ k', k' ≠ k → colOf (AggregateSet.setString ext g k v) k' = colOf g k') ∧
    (AggregateSet.setString ext g k v).Samples = g.Samples := by
  unfold AggregateSet.setString
  simp [GoIndex.upd, colOf, GoMap.get?_set_eq]
  intro k' hk'; exact GoMap.get?_set_ne _ _ _ _ hk'

theorem setFloat_col (ext : Ext) (g : AggregateSet) (k : Bytes) (x : Int) :
    colOf (AggregateSet.setFloat ext g k x) k = ⟨some x, (colOf g k).str⟩ ∧
    (∀ k', k' ≠ k → colOf (AggregateSet.setFloat ext g k x) k' = colOf g k') ∧
    (AggregateSet.setFloat ext g k x).Samples = g.Samples := by
  unfold AggregateSet.setFloat
  simp [GoIndex.upd, colOf, GoMap.get?_set_eq]
  intro k' hk'; exact GoMap.get?_set_ne _ _ _ _ hk'

/-- **The translated per-line `Aggregate` is the model's `contribution` + `combine`** (server side,
    `clientAggregation = false`): under the storage key the column becomes `combine op old c` for the
    contribution `c` of the value, every other key is untouched, an error is returned exactly when the
    value contributes nothing. -/
theorem Aggregate_refines (ext : Ext) (hpf : ParseFloatIs ext) (g : AggregateSet) (k v : Bytes) (op : AggOp)
    (hop : op ≠ .undef) (hwf : ColWf op (colOf g k)) :
    let r := AggregateSet.Aggregate ext g k (opCode op) v false
    (r.2 = none ↔ (contribOf op v).isSome) ∧
    colOf r.1 k = (match contribOf op v with | some c => combine op (colOf g k) c | none => colOf g k) ∧
    (∀ k', k' ≠ k → colOf r.1 k' = colOf g k') ∧ r.1.Samples = g.Samples := by
  intro r
  have hp := hpf v
  cases op with
  | undef => exact absurd rfl hop
  | count =>
    have h := addFloat_col ext g k 1
    simp only [ColWf] at hwf
    simp only [r, AggregateSet.Aggregate, opCode, Count]
    simp [contribOf, combine, h.1, h.2.1, h.2.2]
    exact ⟨rfl, hwf, h.2.1⟩
  | last =>
    have h := setString_col ext g k v
    simp only [ColWf] at hwf
    simp only [r, AggregateSet.Aggregate, opCode, Count, Last]
    simp [contribOf, combine, h.1, h.2.1, h.2.2, hwf]
    exact ⟨rfl, h.2.1⟩
  | len =>
    have h1 := setString_col ext g k v
    have h2 := setFloat_col ext (AggregateSet.setString ext g k v) k (goConv (GoLen.len v))
    have hred : r = (AggregateSet.setFloat ext (AggregateSet.setString ext g k v) k (goConv (GoLen.len v)), none) := by
      simp [r, AggregateSet.Aggregate, opCode, Count, Last, Len, GoZero.zero]
    rw [hred]
    simp only [contribOf, combine, Option.isSome_some, if_true]
    refine ⟨by simp, ?_, ?_, ?_⟩
    · rw [h2.1, h1.1]; simp [goConv, GoLen.len]
    · intro k' hk'; rw [h2.2.1 k' hk', h1.2.1 k' hk']
    · rw [h2.2.2, h1.2.2]
  | sum =>
    simp only [ColWf] at hwf
    simp only [r, AggregateSet.Aggregate, opCode, Count, Last, Len, Gen.Mapr.Sum]
    cases hn : parseNum v with
    | none =>
      rw [hn] at hp
      cases he : (ext.parseFloat v).2 with
      | none => exact absurd he hp
      | some e => simp [contribOf, hn, he]
    | some n =>
      rw [hn] at hp
      have h := addFloat_col ext g k n
      simp [contribOf, hn, hp, combine, h.1, h.2.1, h.2.2]
      exact ⟨hwf, h.2.1⟩
  | avg =>
    simp only [ColWf] at hwf
    simp only [r, AggregateSet.Aggregate, opCode, Count, Last, Len, Gen.Mapr.Sum, Avg]
    cases hn : parseNum v with
    | none =>
      rw [hn] at hp
      cases he : (ext.parseFloat v).2 with
      | none => exact absurd he hp
      | some e => simp [contribOf, hn, he]
    | some n =>
      rw [hn] at hp
      have h := addFloat_col ext g k n
      simp [contribOf, hn, hp, combine, h.1, h.2.1, h.2.2]
      exact ⟨hwf, h.2.1⟩
  | min =>
    simp only [ColWf] at hwf
    simp only [r, AggregateSet.Aggregate, opCode, Count, Last, Len, Gen.Mapr.Sum, Avg, Gen.Mapr.Min]
    cases hn : parseNum v with
    | none =>
      rw [hn] at hp
      cases he : (ext.parseFloat v).2 with
      | none => exact absurd he hp
      | some e => simp [contribOf, hn, he]
    | some n =>
      rw [hn] at hp
      have h := addFloatMin_col ext g k n
      simp [contribOf, hn, hp, combine, h.1, h.2.1, h.2.2]
      exact ⟨hwf, h.2.1⟩
  | max =>
    simp only [ColWf] at hwf
    simp only [r, AggregateSet.Aggregate, opCode, Count, Last, Len, Gen.Mapr.Sum, Avg, Gen.Mapr.Min, Gen.Mapr.Max]
    cases hn : parseNum v with
    | none =>
      rw [hn] at hp
      cases he : (ext.parseFloat v).2 with
      | none => exact absurd he hp
      | some e => simp [contribOf, hn, he]
    | some n =>
      rw [hn] at hp
      have h := addFloatMax_col ext g k n
      simp [contribOf, hn, hp, combine, h.1, h.2.1, h.2.2]
      exact ⟨hwf, h.2.1⟩

/-! ### `Merge` -/

/-- observational equality of column states: for count / sum / avg an absent number and 0 are the same
    (every rendering and every later merge reads an absent number as 0), otherwise equality -/
def ColObs (op : AggOp) (a b : Col) : Prop :=
  match op with
  | .count | .sum | .avg => a.num.getD 0 = b.num.getD 0 ∧ a.str = b.str
  | _ => a = b

/-- the body of the translated `Merge` loop, as the translator emitted it -/
def mergeBody (ext : Ext) (set' : AggregateSet) (s : AggregateSet) (sc : selectCondition) :
    LoopStep (AggregateSet × GoErr) AggregateSet :=
  let storage := sc.FieldStorage
  if (sc.Operation == Count) then
    LoopStep.next (AggregateSet.addFloat ext s storage (GoIndex.idx set'.FValues storage))
  else if (sc.Operation == Gen.Mapr.Sum) then
    LoopStep.next (AggregateSet.addFloat ext s storage (GoIndex.idx set'.FValues storage))
  else if (sc.Operation == Avg) then
    LoopStep.next (AggregateSet.addFloat ext s storage (GoIndex.idx set'.FValues storage))
  else if (sc.Operation == Gen.Mapr.Min) then
    if (GoIndex.idxOk set'.FValues storage).2 then
      LoopStep.next (AggregateSet.addFloatMin ext s storage (GoIndex.idxOk set'.FValues storage).1)
    else LoopStep.next s
  else if (sc.Operation == Gen.Mapr.Max) then
    if (GoIndex.idxOk set'.FValues storage).2 then
      LoopStep.next (AggregateSet.addFloatMax ext s storage (GoIndex.idxOk set'.FValues storage).1)
    else LoopStep.next s
  else if (sc.Operation == Last) then
    if (GoIndex.idxOk set'.SValues storage).2 then
      LoopStep.next (AggregateSet.setString ext s storage (GoIndex.idxOk set'.SValues storage).1)
    else LoopStep.next s
  else if (sc.Operation == Len) then
    if (GoIndex.idxOk set'.SValues storage).2 then
      LoopStep.next (AggregateSet.setFloat ext (AggregateSet.setString ext s storage (GoIndex.idxOk set'.SValues storage).1)
        storage (GoIndex.idx set'.FValues storage))
    else LoopStep.next s
  else LoopStep.ret (s, (some (b!"Unknown aggregation method '%v'")))

/-- the translated `Merge` is the sample addition followed by the loop over `mergeBody` -/
theorem Merge_eq (ext : Ext) (s : AggregateSet) (query : Gen.Mapr.Query) (set' : AggregateSet) :
    AggregateSet.Merge ext s query set' =
      goRange query.Select { s with Samples := s.Samples + set'.Samples } (mergeBody ext set') (fun s => (s, none)) := by
  unfold AggregateSet.Merge mergeBody
  rfl

theorem idx_fvalues (m : GoMap GoString GoFloat) (k : Bytes) : (GoIndex.idx m k : GoFloat) = (m.get? k).getD 0 := rfl

theorem idxOk_get (ν : Type) [GoZero ν] (m : GoMap GoString ν) (k : Bytes) :
    (GoIndex.idxOk m k : ν × Bool) = (match m.get? k with | some v => (v, true) | none => (GoZero.zero, false)) := rfl

/-- one iteration of the translated `Merge` loop is the model's `combine` on the column of its
    storage key (up to `ColObs`), and touches nothing else -/
theorem mergeBody_spec (ext : Ext) (g2 s : AggregateSet) (sc : SelCond) (hop : sc.op ≠ .undef)
    (hwf : ColWf sc.op (colOf s sc.storage)) (hwf2 : ColWf sc.op (colOf g2 sc.storage)) :
    ∃ s', mergeBody ext g2 s (genSel sc) = .next s' ∧
      ColObs sc.op (colOf s' sc.storage) (combine sc.op (colOf s sc.storage) (colOf g2 sc.storage)) ∧
      (∀ k', k' ≠ sc.storage → colOf s' k' = colOf s k') ∧ s'.Samples = s.Samples := by
  obtain ⟨field, storage, op⟩ := sc
  simp only at hop hwf hwf2 ⊢
  cases op with
  | undef => exact absurd rfl hop
  | count =>
    have h := addFloat_col ext s storage (GoIndex.idx g2.FValues storage)
    refine ⟨_, by simp [mergeBody, genSel, opCode, Count], ?_, h.2.1, h.2.2⟩
    simp only [ColWf] at hwf hwf2
    rw [h.1]
    simp only [ColObs, combine, idx_fvalues, colOf]
    refine ⟨?_, by simpa [colOf] using hwf⟩
    cases s.FValues.get? storage <;> cases g2.FValues.get? storage <;> simp [addNum]
  | sum =>
    have h := addFloat_col ext s storage (GoIndex.idx g2.FValues storage)
    refine ⟨_, by simp [mergeBody, genSel, opCode, Count, Gen.Mapr.Sum], ?_, h.2.1, h.2.2⟩
    simp only [ColWf] at hwf hwf2
    rw [h.1]
    simp only [ColObs, combine, idx_fvalues, colOf]
    refine ⟨?_, by simpa [colOf] using hwf⟩
    cases s.FValues.get? storage <;> cases g2.FValues.get? storage <;> simp [addNum]
  | avg =>
    have h := addFloat_col ext s storage (GoIndex.idx g2.FValues storage)
    refine ⟨_, by simp [mergeBody, genSel, opCode, Count, Gen.Mapr.Sum, Avg], ?_, h.2.1, h.2.2⟩
    simp only [ColWf] at hwf hwf2
    rw [h.1]
    simp only [ColObs, combine, idx_fvalues, colOf]
    refine ⟨?_, by simpa [colOf] using hwf⟩
    cases s.FValues.get? storage <;> cases g2.FValues.get? storage <;> simp [addNum]
  | min =>
    simp only [ColWf] at hwf hwf2
    cases hg : g2.FValues.get? storage with
    | none =>
      refine ⟨s, by simp [mergeBody, genSel, opCode, Count, Gen.Mapr.Sum, Avg, Gen.Mapr.Min, idxOk_get, hg], ?_, fun _ _ => rfl, rfl⟩
      simp only [ColObs, combine, colOf, hg, minNum] at hwf ⊢
      cases hs : s.FValues.get? storage <;> simp [colOf, hs] at hwf ⊢ <;> simp [hwf]
    | some x =>
      have h := addFloatMin_col ext s storage x
      refine ⟨_, by simp [mergeBody, genSel, opCode, Count, Gen.Mapr.Sum, Avg, Gen.Mapr.Min, idxOk_get, hg], ?_, h.2.1, h.2.2⟩
      rw [h.1]
      simp only [ColObs, combine, colOf, hg] at hwf ⊢
      simp [hwf]
  | max =>
    simp only [ColWf] at hwf hwf2
    cases hg : g2.FValues.get? storage with
    | none =>
      refine ⟨s, by simp [mergeBody, genSel, opCode, Count, Gen.Mapr.Sum, Avg, Gen.Mapr.Min, Gen.Mapr.Max, idxOk_get, hg], ?_, fun _ _ => rfl, rfl⟩
      simp only [ColObs, combine, colOf, hg, maxNum] at hwf ⊢
      cases hs : s.FValues.get? storage <;> simp [colOf, hs] at hwf ⊢ <;> simp [hwf]
    | some x =>
      have h := addFloatMax_col ext s storage x
      refine ⟨_, by simp [mergeBody, genSel, opCode, Count, Gen.Mapr.Sum, Avg, Gen.Mapr.Min, Gen.Mapr.Max, idxOk_get, hg], ?_, h.2.1, h.2.2⟩
      rw [h.1]
      simp only [ColObs, combine, colOf, hg] at hwf ⊢
      simp [hwf]
  | last =>
    simp only [ColWf] at hwf hwf2
    cases hg : g2.SValues.get? storage with
    | none =>
      refine ⟨s, by simp [mergeBody, genSel, opCode, Count, Gen.Mapr.Sum, Avg, Gen.Mapr.Min, Gen.Mapr.Max, Last, idxOk_get, hg], ?_, fun _ _ => rfl, rfl⟩
      simp only [ColObs, combine, colOf, hg] at hwf ⊢
      simp [hwf]
    | some x =>
      have h := setString_col ext s storage x
      refine ⟨_, by simp [mergeBody, genSel, opCode, Count, Gen.Mapr.Sum, Avg, Gen.Mapr.Min, Gen.Mapr.Max, Last, idxOk_get, hg], ?_, h.2.1, h.2.2⟩
      rw [h.1]
      simp only [ColObs, combine, colOf, hg] at hwf ⊢
      simp [hwf]
  | len =>
    simp only [ColWf] at hwf hwf2
    cases hg : g2.SValues.get? storage with
    | none =>
      refine ⟨s, by simp [mergeBody, genSel, opCode, Count, Gen.Mapr.Sum, Avg, Gen.Mapr.Min, Gen.Mapr.Max, Last, Len, idxOk_get, hg], ?_, fun _ _ => rfl, rfl⟩
      simp [ColObs, combine, colOf, hg]
    | some x =>
      have h1 := setString_col ext s storage x
      have h2 := setFloat_col ext (AggregateSet.setString ext s storage x) storage (GoIndex.idx g2.FValues storage)
      refine ⟨AggregateSet.setFloat ext (AggregateSet.setString ext s storage x) storage (GoIndex.idx g2.FValues storage),
        by simp [mergeBody, genSel, opCode, Count, Gen.Mapr.Sum, Avg, Gen.Mapr.Min, Gen.Mapr.Max, Last, Len, idxOk_get, hg], ?_, ?_, ?_⟩
      · rw [h2.1, h1.1]
        simp only [ColObs, combine, colOf, hg, idx_fvalues] at hwf2 ⊢
        cases hn : g2.FValues.get? storage with
        | none => simp [colOf, hn, hg] at hwf2
        | some n => simp
      · intro k' hk'; rw [h2.2.1 k' hk', h1.2.1 k' hk']
      · rw [h2.2.2, h1.2.2]

theorem mergeLoop_spec (ext : Ext) (g2 : AggregateSet) (sel : List SelCond)
    (hnd : (sel.map (·.storage)).Nodup) (hops : ∀ sc ∈ sel, sc.op ≠ .undef)
    (hwf2 : ∀ sc ∈ sel, ColWf sc.op (colOf g2 sc.storage)) :
    ∀ s, (∀ sc ∈ sel, ColWf sc.op (colOf s sc.storage)) →
    ∃ s', goRange (sel.map genSel) s (mergeBody ext g2) (fun s => (s, (none : GoErr))) = (s', none) ∧
      (∀ sc ∈ sel, ColObs sc.op (colOf s' sc.storage) (combine sc.op (colOf s sc.storage) (colOf g2 sc.storage))) ∧
      (∀ k, k ∉ sel.map (·.storage) → colOf s' k = colOf s k) ∧ s'.Samples = s.Samples := by
  induction sel with
  | nil => intro s _; exact ⟨s, rfl, by simp, fun _ _ => rfl, rfl⟩
  | cons sc rest ih =>
    intro s hwf
    simp only [List.map_cons, List.nodup_cons] at hnd
    obtain ⟨hnotin, hndrest⟩ := hnd
    obtain ⟨s1, hbody, hobs1, hother1, hsam1⟩ :=
      mergeBody_spec ext g2 s sc (hops sc (by simp)) (hwf sc (by simp)) (hwf2 sc (by simp))
    have hne : ∀ sc' ∈ rest, sc'.storage ≠ sc.storage := by
      intro sc' hm heq
      exact hnotin (by rw [← heq]; exact List.mem_map_of_mem hm)
    have hwf1 : ∀ sc' ∈ rest, ColWf sc'.op (colOf s1 sc'.storage) := by
      intro sc' hm
      rw [hother1 _ (hne sc' hm)]
      exact hwf sc' (List.mem_cons_of_mem _ hm)
    obtain ⟨s', hloop, hobs, hother, hsam⟩ :=
      ih hndrest (fun x hx => hops x (List.mem_cons_of_mem _ hx)) (fun x hx => hwf2 x (List.mem_cons_of_mem _ hx)) s1 hwf1
    refine ⟨s', ?_, ?_, ?_, by rw [hsam, hsam1]⟩
    · simp only [List.map_cons, goRange_cons, hbody]
      exact hloop
    · intro x hx
      rcases List.mem_cons.1 hx with rfl | hx
      · rw [hother _ hnotin]; exact hobs1
      · have := hobs x hx
        rwa [hother1 _ (hne x hx)] at this
    · intro k hk
      simp only [List.map_cons, List.mem_cons, not_or] at hk
      rw [hother k hk.2, hother1 k hk.1]

/-- **The translated `Merge` is the model's `mergeSet`**: for a select list with pairwise different
    storage keys (a repeated key is the recorded finding `C05-duplicate-select`) and well-formed
    columns, merging a partial into a set adds the samples and combines every column with the
    model's `combine` (up to `ColObs`); no error is returned and no other key is touched. -/
theorem Merge_refines (ext : Ext) (sel : List SelCond) (hnd : (sel.map (·.storage)).Nodup)
    (hops : ∀ sc ∈ sel, sc.op ≠ .undef) (g g2 : AggregateSet)
    (hwf : ∀ sc ∈ sel, ColWf sc.op (colOf g sc.storage)) (hwf2 : ∀ sc ∈ sel, ColWf sc.op (colOf g2 sc.storage)) :
    let r := AggregateSet.Merge ext g ⟨sel.map genSel⟩ g2
    r.2 = none ∧ r.1.Samples = g.Samples + g2.Samples ∧
    (∀ sc ∈ sel, ColObs sc.op (colOf r.1 sc.storage) (combine sc.op (colOf g sc.storage) (colOf g2 sc.storage))) ∧
    (∀ k, k ∉ sel.map (·.storage) → colOf r.1 k = colOf g k) := by
  intro r
  have hwf' : ∀ sc ∈ sel, ColWf sc.op (colOf { g with Samples := g.Samples + g2.Samples } sc.storage) := hwf
  obtain ⟨s', hloop, hobs, hother, hsam⟩ := mergeLoop_spec ext g2 sel hnd hops hwf2 _ hwf'
  have hr : r = (s', none) := by
    simp only [r, Merge_eq]; exact hloop
  rw [hr]
  exact ⟨rfl, hsam, hobs, hother⟩

end Dtail.GenAgg
