import DtailModel.Model.Aggregator
namespace Dtail

/-- where a registered reader's channel is -/
def Tracked (s : Agg) (r : Nat) (d : Rd) : Prop :=
  s.current = some r ∨ r ∈ s.nextQ ∨ r ∈ s.limbo ∨ (d.st = .closed ∧ d.consumed = d.pushed)

structure AggInv (s : Agg) : Prop where
  len : s.rds.length = s.sizes.length
  bounds : ∀ (r : Nat) (d : Rd) (n : Nat), s.rds[r]? = some d → s.sizes[r]? = some n →
    d.consumed ≤ d.pushed ∧ d.pushed ≤ n ∧ (d.st = .closed → d.pushed = n)
  tracked : ∀ (r : Nat) (d : Rd), s.rds[r]? = some d → d.st ≠ .notRegistered → Tracked s r d
  atDone : s.done = true → ∃ r d, s.current = some r ∧ s.rds[r]? = some d ∧ d.st = .closed ∧ d.consumed = d.pushed

theorem aggInit_inv (sizes : List Nat) : AggInv (aggInit sizes) := by
  refine ⟨by simp [aggInit], ?_, ?_, by simp [aggInit]⟩
  · intro r d n hd _
    have := List.mem_of_getElem? hd
    simp only [aggInit, List.mem_replicate] at this
    rw [this.2]; simp
  · intro r d hd hne
    have := List.mem_of_getElem? hd
    simp only [aggInit, List.mem_replicate] at this
    rw [this.2] at hne; exact absurd rfl hne

theorem getElem?_set_rd (l : List Rd) (r r' : Nat) (v d : Rd) (h : (l.set r v)[r']? = some d) (hr : r < l.length) :
    (r' = r ∧ d = v) ∨ (r' ≠ r ∧ l[r']? = some d) := by
  simp only [List.getElem?_set] at h
  by_cases e : r = r'
  · subst e
    simp only [hr, if_true, Option.some.injEq] at h
    exact Or.inl ⟨rfl, h.symm⟩
  · simp only [e, if_false] at h
    exact Or.inr ⟨fun x => e x.symm, h⟩

theorem aggStep_inv (s s' : Agg) (l : ALabel) (h : AggInv s) (hs : aggStep s l = some s') : AggInv s' := by
  obtain ⟨hlen, hb, ht, hd⟩ := h
  cases l with
  | register r =>
    simp only [aggStep] at hs
    split at hs
    · rename_i p c hr
      split at hs
      case isFalse => simp at hs
      simp only [Option.some.injEq] at hs; subst hs
      have hrlt : r < s.rds.length := (List.getElem?_eq_some_iff.1 hr).1
      refine ⟨by simp [hlen], ?_, ?_, ?_⟩
      · intro r' d n hd' hn
        rcases getElem?_set_rd s.rds r r' _ d hd' hrlt with ⟨rfl, rfl⟩ | ⟨_, hd''⟩
        · have := hb r' _ n hr hn
          exact ⟨this.1, this.2.1, by intro hc; cases hc⟩
        · exact hb r' d n hd'' hn
      · intro r' d hd' hne
        rcases getElem?_set_rd s.rds r r' _ d hd' hrlt with ⟨rfl, rfl⟩ | ⟨_, hd''⟩
        · exact Or.inr (Or.inl (by simp))
        · rcases ht r' d hd'' hne with h1 | h1 | h1 | h1
          · exact Or.inl h1
          · exact Or.inr (Or.inl (List.mem_append_left _ h1))
          · exact Or.inr (Or.inr (Or.inl h1))
          · exact Or.inr (Or.inr (Or.inr h1))
      · intro hdone
        obtain ⟨r0, d0, hc0, hd0, hst0, hcp0⟩ := hd hdone
        refine ⟨r0, d0, hc0, ?_, hst0, hcp0⟩
        show (s.rds.set r _)[r0]? = some d0
        by_cases e : r = r0
        · subst e; rw [hr] at hd0; cases hd0; cases hst0
        · simp [List.getElem?_set, e, hd0]
    · simp at hs
  | push r =>
    simp only [aggStep] at hs
    split at hs
    · rename_i p c n hr hn
      split at hs
      · rename_i hc
        simp only [Option.some.injEq] at hs; subst hs
        have hrlt : r < s.rds.length := (List.getElem?_eq_some_iff.1 hr).1
        refine ⟨by simp [hlen], ?_, ?_, ?_⟩
        · intro r' d n' hd' hn'
          rcases getElem?_set_rd s.rds r r' _ d hd' hrlt with ⟨rfl, rfl⟩ | ⟨_, hd''⟩
          · have hn'' : s.sizes[r']? = some n' := hn'
            rw [hn] at hn''; cases hn''
            have := hb r' _ n hr hn
            exact ⟨by simp only at this ⊢; omega, by simp only; omega, by intro hcl; cases hcl⟩
          · exact hb r' d n' hd'' hn'
        · intro r' d hd' hne
          rcases getElem?_set_rd s.rds r r' _ d hd' hrlt with ⟨rfl, rfl⟩ | ⟨_, hd''⟩
          · rcases ht r' _ hr (by simp) with h1 | h1 | h1 | h1
            · exact Or.inl h1
            · exact Or.inr (Or.inl h1)
            · exact Or.inr (Or.inr (Or.inl h1))
            · exact absurd h1.1 (by simp)
          · exact ht r' d hd'' hne
        · intro hdone
          obtain ⟨r0, d0, hc0, hd0, hst0, hcp0⟩ := hd hdone
          refine ⟨r0, d0, hc0, ?_, hst0, hcp0⟩
          show (s.rds.set r _)[r0]? = some d0
          by_cases e : r = r0
          · subst e; rw [hr] at hd0; cases hd0; cases hst0
          · simp [List.getElem?_set, e, hd0]
      · simp at hs
    · simp at hs
  | close r =>
    simp only [aggStep] at hs
    split at hs
    · rename_i p c n hr hn
      split at hs
      · rename_i hc
        simp only [Option.some.injEq] at hs; subst hs
        have hrlt : r < s.rds.length := (List.getElem?_eq_some_iff.1 hr).1
        refine ⟨by simp [hlen], ?_, ?_, ?_⟩
        · intro r' d n' hd' hn'
          rcases getElem?_set_rd s.rds r r' _ d hd' hrlt with ⟨rfl, rfl⟩ | ⟨_, hd''⟩
          · have hn'' : s.sizes[r']? = some n' := hn'
            rw [hn] at hn''; cases hn''
            have := hb r' _ n hr hn
            exact ⟨this.1, this.2.1, fun _ => hc⟩
          · exact hb r' d n' hd'' hn'
        · intro r' d hd' hne
          rcases getElem?_set_rd s.rds r r' _ d hd' hrlt with ⟨rfl, rfl⟩ | ⟨_, hd''⟩
          · rcases ht r' _ hr (by simp) with h1 | h1 | h1 | h1
            · exact Or.inl h1
            · exact Or.inr (Or.inl h1)
            · exact Or.inr (Or.inr (Or.inl h1))
            · exact absurd h1.1 (by simp)
          · exact ht r' d hd'' hne
        · intro hdone
          obtain ⟨r0, d0, hc0, hd0, hst0, hcp0⟩ := hd hdone
          refine ⟨r0, d0, hc0, ?_, hst0, hcp0⟩
          show (s.rds.set r _)[r0]? = some d0
          by_cases e : r = r0
          · subst e; rw [hr] at hd0; cases hd0; cases hst0
          · simp [List.getElem?_set, e, hd0]
      · simp at hs
    · simp at hs
  | first =>
    simp only [aggStep] at hs
    split at hs
    · rename_i r rest hcur hq
      split at hs
      · simp at hs
      · rename_i hnd
        simp only [Option.some.injEq] at hs; subst hs
        refine ⟨hlen, hb, ?_, ?_⟩
        · intro r' d hd' hne
          rcases ht r' d hd' hne with h1 | h1 | h1 | h1
          · rw [hcur] at h1; cases h1
          · rw [hq] at h1
            rcases List.mem_cons.1 h1 with rfl | h1
            · exact Or.inl rfl
            · exact Or.inr (Or.inl h1)
          · exact Or.inr (Or.inr (Or.inl h1))
          · exact Or.inr (Or.inr (Or.inr h1))
        · intro hdone; exact absurd hdone (by simpa using hnd)
    · simp at hs
  | take =>
    simp only [aggStep] at hs
    split at hs
    · rename_i r hcur
      split at hs
      · rename_i d hr
        split at hs
        · rename_i hc
          simp only [Option.some.injEq] at hs; subst hs
          have hrlt : r < s.rds.length := (List.getElem?_eq_some_iff.1 hr).1
          refine ⟨by simp [hlen], ?_, ?_, ?_⟩
          · intro r' d' n hd' hn
            rcases getElem?_set_rd s.rds r r' _ d' hd' hrlt with ⟨rfl, rfl⟩ | ⟨_, hd''⟩
            · have := hb r' d n hr hn
              exact ⟨by simp only; omega, this.2.1, this.2.2⟩
            · exact hb r' d' n hd'' hn
          · intro r' d' hd' hne
            rcases getElem?_set_rd s.rds r r' _ d' hd' hrlt with ⟨rfl, rfl⟩ | ⟨_, hd''⟩
            · exact Or.inl hcur
            · exact ht r' d' hd'' hne
          · intro hdone
            have : s.done = true := hdone
            simp [this] at hc
        · simp at hs
      · simp at hs
    · simp at hs
  | closedSwitch =>
    simp only [aggStep] at hs
    split at hs
    · rename_i r r' rest hcur hq
      split at hs
      · rename_i d hr
        split at hs
        · rename_i hc
          simp only [Option.some.injEq] at hs; subst hs
          refine ⟨hlen, hb, ?_, ?_⟩
          · intro r'' d' hd' hne
            rcases ht r'' d' hd' hne with h1 | h1 | h1 | h1
            · rw [hcur] at h1; cases h1
              rw [hr] at hd'; cases hd'
              exact Or.inr (Or.inr (Or.inr ⟨hc.1, hc.2.1⟩))
            · rw [hq] at h1
              rcases List.mem_cons.1 h1 with rfl | h1
              · exact Or.inl rfl
              · exact Or.inr (Or.inl h1)
            · exact Or.inr (Or.inr (Or.inl h1))
            · exact Or.inr (Or.inr (Or.inr h1))
          · intro hdone
            have : s.done = true := hdone
            simp [this] at hc
        · simp at hs
      · simp at hs
    · simp at hs
  | closedDone =>
    simp only [aggStep] at hs
    split at hs
    · rename_i r hcur hq
      split at hs
      · rename_i d hr
        split at hs
        · rename_i hc
          simp only [Option.some.injEq] at hs; subst hs
          exact ⟨hlen, hb, ht, fun _ => ⟨r, d, hcur, hr, hc.1, hc.2.1⟩⟩
        · simp at hs
      · simp at hs
    · simp at hs
  | rotate =>
    simp only [aggStep] at hs
    split at hs
    · rename_i r r' rest hcur hq
      split at hs
      · rename_i d hr
        split at hs
        · rename_i hc
          simp only [Option.some.injEq] at hs; subst hs
          refine ⟨hlen, hb, ?_, ?_⟩
          · intro r'' d' hd' hne
            rcases ht r'' d' hd' hne with h1 | h1 | h1 | h1
            · rw [hcur] at h1; cases h1
              exact Or.inr (Or.inr (Or.inl (by simp)))
            · rw [hq] at h1
              rcases List.mem_cons.1 h1 with rfl | h1
              · exact Or.inl rfl
              · exact Or.inr (Or.inl h1)
            · exact Or.inr (Or.inr (Or.inl (List.mem_append_left _ h1)))
            · exact Or.inr (Or.inr (Or.inr h1))
          · intro hdone
            have : s.done = true := hdone
            simp [this] at hc
        · simp at hs
      · simp at hs
    · simp at hs
  | requeue r =>
    simp only [aggStep] at hs
    split at hs
    · rename_i hmem
      simp only [Option.some.injEq] at hs; subst hs
      refine ⟨hlen, hb, ?_, hd⟩
      intro r' d hd' hne
      rcases ht r' d hd' hne with h1 | h1 | h1 | h1
      · exact Or.inl h1
      · exact Or.inr (Or.inl (List.mem_append_left _ h1))
      · by_cases e : r' = r
        · subst e; exact Or.inr (Or.inl (by simp))
        · exact Or.inr (Or.inr (Or.inl ((List.mem_erase_of_ne e).2 h1)))
      · exact Or.inr (Or.inr (Or.inr h1))
    · simp at hs

end Dtail

namespace Dtail

theorem aggRun_append (s : Agg) (a b : List ALabel) :
    aggRun s (a ++ b) = (aggRun s a).bind (fun s' => aggRun s' b) := by
  induction a generalizing s with
  | nil => simp [aggRun]
  | cons l rest ih =>
    simp only [List.cons_append, aggRun]
    cases aggStep s l with
    | none => simp
    | some s' => simp [ih]

/-- the eager schedule of the scripted sessions is one of the interleavings of the transition
    system -/
theorem aggSettle_run (fuel : Nat) (s0 s : Agg) (acc : List ALabel)
    (h : aggRun s0 acc.reverse = some s) :
    aggRun s0 (aggSettle fuel s acc).2 = some (aggSettle fuel s acc).1 := by
  induction fuel generalizing s acc with
  | zero => simpa [aggSettle] using h
  | succ n ih =>
    unfold aggSettle
    cases hl : eagerLabel s with
    | none => simpa using h
    | some l =>
      cases hs : aggStep s l with
      | none => simp only [hs]; simpa using h
      | some s' =>
        simp only [hs]
        apply ih
        rw [List.reverse_cons, aggRun_append, h]
        simp [aggRun, hs]

end Dtail
