import DtailModel.Model.Basic
import DtailModel.Model.Reader
import DtailModel.Model.Wire
