/-
Line-protocol driver: evaluates the executable models (and the specification functions of
the property theorems) on the same cases the Go harness ran through the real code.
One output line per input line:  M<TAB>S<TAB>G<TAB>T
  M = model result in the harness' output format
  S = specification value the property prescribes ("-" if this op has none)
  G = finding signature the case falls in ("-" if none)
  T = branch tags (coverage accounting)
-/
import DtailModel.Generated.Code
import DtailModel.Model.AggregateOps
import DtailModel.Model.OutfileOps
import DtailModel.Model.Hex
import DtailModel.Model.GlobID
import DtailModel.Model.Wire
import DtailModel.Model.Fast
import DtailModel.Model.Grep
import DtailModel.Model.Discovery
import DtailModel.Model.Color
import DtailModel.Model.Command
import DtailModel.Model.Base64
import DtailModel.Model.Auth
import DtailModel.Model.KnownHosts
import DtailModel.Model.Perm
import DtailModel.Model.Aggregate
import DtailModel.Model.Outfile
import DtailModel.Model.Result
import DtailModel.Model.Limiter
import DtailModel.Model.Conn
import DtailModel.Model.Multi
import DtailModel.Model.Tail
import DtailModel.Model.Session
import DtailModel.Model.Aggregator
open Dtail

structure Res where
  m : String
  s : String := "-"
  g : String := "-"
  t : String := "-"

def Res.render (r : Res) : String := s!"{r.m}\t{r.s}\t{r.g}\t{r.t}"

def bad : Res := { m := "bad-op" }

def joinWith (sep : String) (l : List String) : String := sep.intercalate l

def c01sig (m : Nat) (bs : Bytes) : String :=
  if sigDelim bs then "delim-byte"
  else if sigDot m bs then "dot-line" else "-"

def c01tags (m : Nat) (bs : Bytes) : String :=
  let ls := readLinesF m bs
  let split := ls.any (fun l => l.length = m + 1 ∧ l.getLast? = some NL)
  let noFinalNL := bs.getLast? ≠ some NL ∧ bs ≠ []
  let empty := ls.any (fun l => l = [NL])
  joinWith "," ((if split then ["split"] else []) ++ (if noFinalNL then ["nofinalnl"] else [])
    ++ (if empty then ["emptyline"] else []) ++ (if bs.isEmpty then ["emptyfile"] else []))

/-- tie G: `readFile.read` as translated from the working tree on this run, on the same content: the lines it sends -/
def c01translated (m : Nat) (bs : Bytes) : Option (List Bytes) :=
  let ext : Go.Ext := { parseFloat := fun _ => (0, none), maxLineLength := m, fuel := bs.length + 2 }
  match Gen.Reader.readFile.read ext {} () [] bs () () with
  | .ok (f, none) => some f.rawLines
  | _ => none

def opC01Reader : List String → Res
  | [m, c] => match m.toNat?, unhex c with
    | some m, some bs =>
      let ls := readLinesF m bs
      { m := if c01translated m bs != some ls then "TRANSLATED-READER-DIFFERS-FROM-MODEL" else
          joinWith "," (ls.zipIdx.map (fun (l, i) => s!"{i+1}:{hexOf l}")),
        s := hexOf (insertNL m 0 bs), t := c01tags m bs }
    | _, _ => bad
  | _ => bad

/-- tie G: the client's `Write` as translated from the working tree on this run, fed the frames piece by piece: what it prints -/
def c01client (pieces : List Bytes) : Option Bytes :=
  let ext : Go.Ext := { parseFloat := fun _ => (0, none) }
  let r := pieces.foldl (fun (acc : Option Gen.Client.baseHandler) piece => match acc with
    | none => none
    | some h => match Gen.Client.baseHandler.Write ext h piece with
      | .ok (h', _, _) => some h'
      | _ => none) (some {})
  r.map fun h => h.printed.flatten

def opC01Pipe : List String → Res
  | [plain, m, bufLen, _chunk, c] => match m.toNat?, bufLen.toNat?, unhex c with
    | some m, some bufLen, some bs =>
      let plain := plain = "1"
      let frames := (catLines (str "pipe.txt") (readLinesF m bs)).map (frameOf plain (str "vhost"))
      -- each Read(p) hands out at most len(p) bytes of the pending frame
      let pieces := frames.flatMap (fun f => readPieces bufLen f.length f)
      let out := printed (clientMsgsF frames.flatten)
      -- in plain mode what the client prints is the property's observable: the content (a final newline added)
      { m := if c01client pieces != some out then "TRANSLATED-CLIENT-DIFFERS-FROM-MODEL" else
          joinWith "," (pieces.map hexOf) ++ ";" ++ hexOf out,
        s := if plain then hexOf (insertNL m 0 bs) else "-",
        g := if plain then c01sig m bs else "-", t := c01tags m bs }
    | _, _, _ => bad
  | _ => bad

def opC01E2ECore (m c : String) (extra : List String) : Res :=
  match m.toNat?, unhex c with
  | some m, some bs =>
    { m := "0;" ++ hexOf (printed (clientMsgsF ((catLines [] (readLinesF m bs)).map (frameOf true [])).flatten)), s := "0;" ++ hexOf (insertNL m 0 bs),
      g := c01sig m bs, t := joinWith "," (([c01tags m bs] ++ extra).filter (· ≠ "-")) }
  | _, _ => bad

/-- the compression suffix (third argument) does not enter the model: decompression is transparent -/
def opC01E2E : List String → Res
  | [m, c] => opC01E2ECore m c []
  | [m, c, sfx] => opC01E2ECore m c ["compressed-" ++ sfx]
  | _ => bad

/-! C03 -/

def bitsOf (s : String) : List Bool := if s = "-" then [] else s.toList.map (· == '1')

/-- the regexp engine as a table: raw line ↦ answer, chomped line ↦ answer -/
def engineOf (raw : List Bytes) (bNL bNo : List Bool) : Bytes → Bool :=
  let tab := (raw.zip bNL) ++ ((raw.map chomp).zip bNo)
  fun l => ((tab.find? (fun p => p.1 == l)).map (·.2)).getD false

def c03tags (B A M : Nat) (ls : List (Bool × Bytes)) (outLen : Nat) : String :=
  let nsel := (ls.filter (·.1)).length
  joinWith "," ((if B > 0 then ["before"] else []) ++ (if A > 0 then ["after"] else [])
    ++ (if M > 0 then ["max"] else []) ++ (if M > 0 ∧ nsel > M then ["cut"] else [])
    ++ (if M > 0 ∧ nsel > M ∧ A > 0 then ["cut+after"] else [])
    ++ (if B > 0 ∧ ls.length > B + 1 then ["ring-wrapped"] else [])
    ++ (if outLen < ls.length ∧ outLen > nsel then ["context-partial"] else []))

def c03common (a : List String) : Option (Nat × Nat × Nat × Nat × RFlag × (Bytes → Bool) × List Bytes × List Bool × List Bool) :=
  match a with
  | [m, B, A, M, inv, pat, bNL, bNo, c] => do
    let m ← m.toNat?; let B ← B.toNat?; let A ← A.toNat?; let M ← M.toNat?
    let pat ← unhex pat; let bs ← unhex c
    let raw := readLinesF m bs
    let bNL := bitsOf bNL; let bNo := bitsOf bNo
    if bNL.length ≠ raw.length ∨ bNo.length ≠ raw.length then none
    else some (m, B, A, M, clientFlag pat (inv = "1"), engineOf raw bNL bNo, raw, bNL, bNo)
  | _ => none

/-- tie G: `filterWithLContext` as translated from the working tree on this run, on the same raw lines and verdicts: the
    contents of the lines it sends (`none`: a panic of the translation) -/
def c03translated (B A M : Nat) (sel : Bytes → Bool) (raw : List Bytes) : Option (List Bytes) :=
  let ext : Go.Ext := { parseFloat := fun _ => (0, none), reMatch := fun _ l => sel l, fuel := B + 2 }
  let ltx : Go.GoLContext := { AfterContext := A, BeforeContext := B, MaxCount := M }
  match Gen.Grep.readFile.filterWithLContext ext {} () ltx raw () {} with
  | .ok f => some (f.lines.map fun l => match l with | .new c _ _ _ => c | .null => [])
  | _ => none

/-- tie G: `filterWithoutLContext` as translated from the working tree on this run (no context option): the numbered lines -/
def c03plain (sel : Bytes → Bool) (raw : List Bytes) : List (Nat × Bytes) :=
  let ext : Go.Ext := { parseFloat := fun _ => (0, none), reMatch := fun _ l => sel l }
  (Gen.Fs.readFile.filterWithoutLContext ext {} () raw () {}).lines.map fun l => match l with
    | .new c n _ _ => (n.toNat, c)
    | .null => (0, [])

def opC03Grep (a : List String) : Res :=
  match c03common a with
  | some (_, B, A, M, f, eng, raw, _, _) =>
    let out := dgrepLines B A M f eng raw
    let genBad := ((B > 0 ∨ A > 0 ∨ M > 0) ∧ c03translated B A M (fun l => matchFlag f (eng l)) raw != some (out.map (·.2)))
      ∨ (B = 0 ∧ A = 0 ∧ M = 0 ∧ c03plain (fun l => matchFlag f (eng l)) raw != out)
    let lsSpec := raw.map (fun l => (matchFlag f (eng (chomp l)), l))
    let spec := grepSpec B A M (blocks lsSpec).1 (blocks lsSpec).2
    { m := if genBad then "TRANSLATED-FILTER-DIFFERS-FROM-MODEL" else joinWith "," (out.map (fun (n, l) => s!"{n}:{hexOf l}")),
      s := joinWith "," (spec.map hexOf),
      g := if f != .noop ∧ sigNlSensitive eng raw then "nl-sensitive" else "-",
      t := c03tags B A M lsSpec out.length }
  | none => bad

def opC03E2E (a : List String) : Res :=
  match c03common a with
  | some (_, B, A, M, f, eng, raw, _, _) =>
    let out := dgrepLines B A M f eng raw
    let lsSpec := raw.map (fun l => (matchFlag f (eng (chomp l)), l))
    let spec := grepSpec B A M (blocks lsSpec).1 (blocks lsSpec).2
    let frames := out.map (fun (n, l) => frameOf true [] ⟨l, n, 100, []⟩)
    { m := "0;" ++ hexOf (printed (clientMsgsF frames.flatten)),
      s := "0;" ++ hexOf spec.flatten,
      g := if f != .noop ∧ sigNlSensitive eng raw then "nl-sensitive" else "-",
      t := c03tags B A M lsSpec out.length }
  | none => bad

/-! C18 -/

def natList (s : String) : Option (List Nat) :=
  if s = "-" then some [] else (s.splitOn ",").mapM (·.toNat?)

def renderServers (o : Option (List Bytes)) : String :=
  match o with
  | none => "PANIC index out of range"
  | some [] => "none"
  | some l => joinWith "," (l.map hexOf)

def sortBytes (l : List Bytes) : List Bytes :=
  (l.toArray.qsort (fun a b => compare a b == .lt)).toList

/-- `Discovery.ServerList` as translated from the working tree (tie G), on the same entries, filter verdicts and draws -/
def c18translated (entries : List Bytes) (filter : Option (Bytes → Bool)) (rs : List Nat) : List Bytes :=
  let ext : Go.Ext := { parseFloat := fun _ => (0, none), randNew := ⟨rs.map fun (n : Nat) => (n : Int)⟩,
                        strList := fun _ => entries, reMatchRaw := fun _ s => (filter.getD fun _ => true) s }
  (Gen.Discovery.Discovery.ServerList ext { regex := ⟨[], filter.isSome⟩ }).2

def c18res (entries : List Bytes) (filter : Option (Bytes → Bool)) (rs : List Nat) : Res :=
  let w := wanted entries filter
  let d := dedup [] w
  let mres := serverList entries filter rs
  let gen := c18translated entries filter rs
  { m := renderServers mres ++ (if mres.isSome ∧ mres != some gen then " translated=" ++ renderServers (some gen) else ""),
    s := renderServers (some (sortBytes d)),
    t := joinWith "," ((if d.length < w.length then ["dups"] else []) ++ (if d.length > 1 then ["multi"] else [])
        ++ (if filter.isSome then ["filter"] else []) ++ (if entries.length ≥ 100 then ["large"] else [])) }

def opC18List : List String → Res
  | [srv, idx, bit] => match unhex srv, natList idx with
    | some srv, some rs =>
      if srv.length ≥ 2 ∧ srv.head? = some 47 ∧ srv.getLast? = some 47 then
        -- initRegex: the server argument becomes the filter and the list source is emptied
        c18res (splitOnByte COMMA []) (some (fun _ => bit = "1")) rs
      else c18res (splitOnByte COMMA srv) none rs
    | _, _ => bad
  | _ => bad

/-- a plugged-in module supplies the entries, the server argument is the filter; `bits` are Go's regexp verdicts
    per entry (in entry order) -/
def opC18Filter : List String → Res
  | [ents, idx, bits] => match unhex ents, natList idx with
    | some ents, some rs =>
      let entries := if ents.isEmpty then [] else splitOnByte COMMA ents
      let verdicts := (entries.zip (bits.toList.map (· == '1')))
      c18res entries (some (fun e => (verdicts.find? (·.1 = e)).map (·.2) |>.getD false)) rs
    | _, _ => bad
  | _ => bad

def opC18File : List String → Res
  | [c, idx, _] => match unhex c, natList idx with
    | some c, some rs => c18res (scanLines c) none rs
    | _, _ => bad
  | _ => bad

/-! C16 -/

def c16tags (msg : Bytes) : String :=
  let n := (splitOnByte PIPE msg).length
  joinWith "," ((if hasPrefix (b!"REMOTE") msg then [s!"remote{min n 7}"] else [])
    ++ (if hasPrefix (b!"CLIENT") msg then [s!"client{min n 4}"] else [])
    ++ (if hasPrefix (b!"SERVER") msg then [s!"server{min n 4}"] else [])
    ++ (if msg.contains 27 then ["esc"] else []) ++ (if msg.getLast? = some NL then ["nl"] else [])
    ++ (if msg.isEmpty then ["empty"] else []) ++ (if isHidden msg then ["hidden"] else [])
    ++ (if (paintSeverity defaultTbl ((splitN PIPE 6 msg).getLast?.getD [])).isSome then ["severity"] else []))

def opC16Colorfy : List String → Res
  | [h] => match unhex h with
    | some msg =>
      let r := hexOf (render (colorfy defaultTbl msg)) ++ ";same"
      -- tie G: `Colorfy` as translated from the working tree, painting with nothing: the message itself must come out
      let gen := Gen.Brush.Colorfy { parseFloat := fun _ => (0, none) } msg
      if gen != Outcome.ok msg then { m := "TRANSLATED-COLORFY-ALTERS-TEXT-OR-PANICS", s := r, t := c16tags msg } else
      { m := r, s := r, t := c16tags msg }
    | none => bad
  | _ => bad

def opC16Write : List String → Res
  | [kind, color, _chunk, st] => match unhex st with
    | some bs =>
      if kind = "health" then
        let r := if (healthFeed bs).ok then "status=0" else "status=2"
        { m := r, s := r, t := if (healthFeed bs).ok then "ok" else "-" }
      else
        let msgs := if kind = "mapr" then (maprFeed bs).shown else (clientFeed ⟨[], []⟩ bs).msgs
        let out := if color = "1" then render (printedColored defaultTbl msgs) else printed msgs
        let r := hexOf out ++ ";same"
        { m := r, s := r,
          t := joinWith "," ((msgs.map c16tags).filter (· ≠ "")) }
    | none => bad
  | _ => bad

/-! C10 / C12 -/

def env10 : Env :=
  { b64dec := b64decode, compiles := fun p => !containsSub p (b!"[z-a]"), fl := fun _ => none }

def renderDecoded (ds : List DecodedCmd) : String :=
  if ds.isEmpty then "none" else
  joinWith " " (ds.map fun d =>
    s!"{hexOf d.name}/{d.argc}/{joinWith "," (d.args.map hexOf)}/{d.ltx.before},{d.ltx.after},{d.ltx.maxc}")

def boolStr (b : Bool) : String := if b then "true" else "false"

def renderModes (m : Bool × Bool × Bool) : String := s!"modes={boolStr m.1},{boolStr m.2.1},{boolStr m.2.2}"

def outcomeTag {α : Type} : Outcome α → String
  | .ok _ => "ok" | .err _ => "err" | .panic _ => "panic"

/-- c10.query <query>: outcome class of `server.NewAggregate` on a client-supplied query text -/
def opC10Query : List String → Res
  | [h] => match unhex h with
    | some q =>
      let r := match newQuery (fun _ => none) q with
        | .panic p => "PANIC " ++ p
        | .err _ => "err"
        | .ok none => "err"
        | .ok (some _) => "ok"
      { m := r, s := "no-panic", t := r }
    | none => bad
  | _ => bad

/-- tie G (panic-aware): `baseHandler.handleCommand` and `config.DeserializeOptions` as translated from the working tree, on
    the same command: the translated decoder panics exactly when the model says so, and where options are decoded the
    translated `DeserializeOptions` yields the model's line context and option map -/
def ext10 : Go.Ext :=
  { parseFloat := fun _ => (0, some (b!"syntax")),
    atoi := fun t => match atoi t with | some n => (n, none) | none => (0, some (b!"syntax")),
    base64Decode := fun t => match env10.b64dec t with | some d => (d, none) | none => ([], some (b!"illegal base64 data")) }

/-- the translated server `Write` on the whole stream: all bytes taken, the tail after the last ';' left in the write
    buffer, one started command per command the model decodes -/
def c10writeAgrees (stream : Bytes) : Bool :=
  let decoded := ((serverCommands stream).map (decodeCommand env10)).filter (fun r => match r with | .ok _ => true | _ => false)
  match Gen.Decode.baseHandler.Write ext10 {} stream with
  | .ok (h, n, none) => n == (stream.length : Int) && some h.writeBuf == (splitOnByte SEMI stream).getLast? && h.started.length == decoded.length
  | _ => false

def c10translatedAgrees (cmd : Bytes) : Bool :=
  let ext := ext10
  let model := decodeCommand env10 cmd
  let gen := Gen.Decode.baseHandler.handleCommand ext {} cmd
  let panicSame := model.isPanic == (match gen with | .ok _ => false | _ => true)
  -- what the translated handler hands to the command callback is what the model decodes
  let startedSame := match model, gen with
    | .ok d, .ok h => (h.started.map fun (l, c, a, n) => (l.BeforeContext, l.AfterContext, l.MaxCount, c, a, n))
        == [(d.ltx.before, d.ltx.after, d.ltx.maxc, (d.argc : Int), d.args, d.name)]
    | .err _, .ok h => h.started.isEmpty
    | _, _ => true
  let optsSame := match model with
    | .ok d => match d.options with
      | none => true
      | some mo =>
        let parts := splitOnByte COLON (d.args.headD [])
        match Gen.Config.DeserializeOptions ext (parts.drop 1) with
        | .ok (go, ltx, none) =>
          ltx.BeforeContext == d.ltx.before && ltx.AfterContext == d.ltx.after && ltx.MaxCount == d.ltx.maxc
            && sortBytes (go.entries.map fun e => e.1 ++ [0] ++ e.2) == sortBytes (mo.map fun e => e.1 ++ [0] ++ e.2)
        | _ => false
    | _ => true
  panicSame && optsSame && startedSame

def opC10Decode : List String → Res
  | [h] => match unhex h with
    | some stream =>
      let rs := (serverCommands stream).map (decodeCommand env10)
      if !(serverCommands stream).all c10translatedAgrees then { m := "TRANSLATED-DECODER-DIFFERS-FROM-MODEL", s := "no-panic" } else
      if !(rs.any (·.isPanic)) ∧ !c10writeAgrees stream then { m := "TRANSLATED-WRITE-DIFFERS-FROM-MODEL", s := "no-panic" } else
      match rs.find? (·.isPanic) with
      | some (.panic p) => { m := "PANIC " ++ p, s := "no-panic" }
      | _ =>
        let ds := rs.filterMap (fun r => match r with | .ok d => some d | _ => none)
        let errs := (rs.filter (fun r => match r with | .err _ => true | _ => false)).length
        { m := s!"{renderDecoded ds};errs={errs};{renderModes (sessionModes ds)}", s := "no-panic",
          t := joinWith "," ((if errs > 0 then ["decode-error"] else []) ++ (if ds.length > 1 then ["multi"] else [])
            ++ (if ds.any (·.options.isSome) then ["options"] else [])
            ++ (if ds.any (fun d => d.ltx != {}) then ["ltx"] else [])) }
    | none => bad
  | _ => bad

def actionTag : Action → String
  | .errorMessage _ => "error" | .read .. => "read" | .map .. => "map" | .ack _ => "ack"

def existsMarker : Bytes := b!"/c10-exists.txt"

def opC10Run : List String → Res
  | [h] => match unhex h with
    | some stream =>
      let rs := (serverCommands stream).map (handleCommand env10)
      -- a reader that is started allocates the before-ring
      let starts : List (Outcome Unit) := rs.map fun r => match r with
        | Outcome.ok ⟨.read _ ltx glob _, _⟩ => if hasSuffix existsMarker glob then readerStart ltx else Outcome.ok ()
        | Outcome.panic p => Outcome.panic p
        | _ => Outcome.ok ()
      let huge := rs.any fun r => match r with
        | .ok ⟨.read _ ltx _ _, _⟩ => ltx.before > 65536
        | _ => false
      match starts.find? (·.isPanic) with
      | some (.panic p) => { m := "CRASH " ++ p, s := "no-crash", g := if huge then "huge-before" else "-", t := "panic" }
      | _ =>
        let acts := rs.filterMap (fun r => match r with | .ok hd => some hd.action | _ => none)
        -- an error/warning message per rejected command, and one per read of a missing file
        let errs := (acts.filter (fun a => match a with
          | .errorMessage _ => true
          | .read _ _ glob _ => !hasSuffix existsMarker glob
          | _ => false)).length
        let lines := acts.any fun a => match a with
          | .read .cat _ glob re => hasSuffix existsMarker glob ∧ re.flag = .noop
          | _ => false
        { m := s!"errs={errs};lines={if lines then 1 else 0}", s := "no-crash",
          t := joinWith "," (acts.map actionTag).eraseDups }
    | none => bad
  | _ => bad

/-- tie G: the client's `SerializeOptions` and the server's `DeserializeOptions`, both as translated from the working tree on
    this run, the map visited in reverse insertion order: the decoder must arrive at the request's line context and modes -/
def c12translatedOptions (quiet plain : Bool) (b a m : Int) : Bool :=
  let ext : Go.Ext := { ext10 with fmtInt := showInt, mapOrder := List.reverse }
  let args : Gen.ClientArgs.Args := { LContext := ⟨a, b, m⟩, Quiet := quiet, Plain := plain, Serverless := true }
  let s := (Gen.ClientArgs.Args.SerializeOptions ext args).2
  match Gen.Config.DeserializeOptions ext (splitOnByte COLON s) with
  | .ok (go, ltx, none) =>
    ltx.BeforeContext == b && ltx.AfterContext == a && ltx.MaxCount == m
      && (go.get? (b!"quiet") == some (b!"true")) == quiet && (go.get? (b!"plain") == some (b!"true")) == plain
      && go.get? (b!"serverless") == some (b!"true")
  | _ => false

def opC12Roundtrip : List String → Res
  | [mode, quiet, plain, before, after, maxc, invert, file, pattern] =>
    match before.toInt?, after.toInt?, maxc.toInt?, unhex file, unhex pattern with
    | some b, some a, some m, some file, some pattern =>
      let mk (f : Bytes) : Req := Req.mk (str mode) (quiet = "1") (plain = "1") true ⟨b, a, m⟩ f pattern (invert = "1")
      -- one command per file of the comma separated list
      let files := splitOnByte COMMA file
      let streams := files.map fun f => sendMessage b64encode (makeCommand (mk f) (optionList showInt (mk f)))
      -- the client handler's Read copies the command into a 32 KiB buffer
      let streams := streams.map (·.take 32768)
      let rs := streams.flatMap fun st => (serverCommands st).map (decodeCommand env10)
      let ds := rs.filterMap (fun r => match r with | .ok d => some d | _ => none)
      -- the specification: what the user asked for, per file
      let flag := clientFlag pattern (invert = "1")
      let want := files.map fun f =>
        s!"{hexOf (str mode)}|{hexOf f}|{hexOf (flagName flag)}|{hexOf (if flag = .noop then [] else pattern)}|{b},{a},{m}"
      let got := ds.map fun d =>
        let re := match regexDeserialize env10 (joinByte SP (d.args.drop 2)) with
          | .ok r => s!"{hexOf (flagName r.flag)}|{hexOf r.pattern}" | _ => "regex-error"
        s!"{hexOf d.name}|{hexOf (d.args.getD 1 [])}|{re}|{d.ltx.before},{d.ltx.after},{d.ltx.maxc}"
      let wantModes := s!"modes={boolStr (quiet = "1")},{boolStr (plain = "1")},true"
      { m := if !c12translatedOptions (quiet = "1") (plain = "1") b a m then "TRANSLATED-OPTIONS-ROUNDTRIP-DIFFERS" else
          s!"{renderDecoded ds};{renderModes (sessionModes ds)}",
        s := joinWith " " want ++ ";" ++ wantModes,
        g := if (streams.any (·.length ≥ 32768)) then "long-command" else if file.contains SP then "space-in-file" else "-",
        t := joinWith "," ((if pattern.contains SP then ["space"] else []) ++ (if flag = .noop then ["noop"] else [])
            ++ (if pattern.any (· ≥ 128) then ["non-ascii"] else []) ++ (if files.length > 1 then ["multi-file"] else [])
            ++ (if b ≠ 0 ∨ a ≠ 0 ∨ m ≠ 0 then ["ltx"] else [])
            ++ (if pattern.any (fun c => c = COLON ∨ c = SEMI ∨ c = COMMA ∨ c = PERCENT ∨ c = EQ) then ["special"] else [])) }
    | _, _, _, _, _ => bad
  | _ => bad

/-! C11 -/

def hx (b : Bytes) : String := hexOf b

def aggCode : AggOp → Nat
  | .undef => 0 | .count => 1 | .sum => 2 | .min => 3 | .max => 4 | .last => 5 | .avg => 6 | .len => 7
def ftCode : FType → Nat
  | .field => 1 | .string => 2 | .float => 3 | .funcs => 4
def qopCode : QOp → Nat
  | .strEq => 1 | .strNe => 2 | .contains => 3 | .notContains => 4 | .hasPrefix => 5 | .notHasPrefix => 6
  | .hasSuffix => 7 | .notHasSuffix => 8 | .fEq => 10 | .fNe => 11 | .fLt => 12 | .fLe => 13 | .fGt => 14 | .fGe => 15

def vjoin (l : List String) : String := if l.isEmpty then "none" else joinWith "," l

def dumpQuery (q : Query) : String :=
  let sel := q.sel.map fun s => s!"{hx s.field}|{hx s.storage}|{aggCode s.op}"
  let whr := q.whr.map fun w => s!"{ftCode w.lType}|{hx w.lStr}|{hx w.lFloat}|{qopCode w.op}|{ftCode w.rType}|{hx w.rStr}|{hx w.rFloat}"
  let set := q.set.map fun c => s!"{hx c.lStr}|{ftCode c.rType}|{hx c.rStr}|{hx c.rFloat}|{hx (joinByte 43 c.funcs)}"
  let out := match q.outfile with | none => "none" | some (p, a) => s!"{hx p}/{boolStr a}"
  s!"sel={vjoin sel};table={hx q.table};where={vjoin whr};set={vjoin set};group={vjoin (q.groupBy.map hx)};order={hx q.orderBy};rev={boolStr q.reverse};key={hx q.groupKey};interval={q.interval};limit={q.limit};outfile={out};logformat={hx q.logFormat}"

def floatTableOf (s : String) : FloatOracle :=
  let rows := if s = "-" then [] else (s.splitOn ",").filterMap fun r =>
    match r.splitOn "=" with
    | [k, v] => match unhex k, unhex v with
      | some k, some v => some (k, v)
      | _, _ => none
    | _ => none
  fun t => (rows.find? (·.1 == t)).map (·.2)

def c11tags (q : Bytes) (r : Outcome (Option Query)) : String :=
  match r with
  | .ok (some p) => joinWith "," (["ok"] ++ (if p.whr.length > 0 then ["where"] else []) ++ (if p.set.length > 0 then ["set"] else [])
      ++ (if p.orderBy ≠ [] then ["order"] else []) ++ (if p.outfile.isSome then ["outfile"] else [])
      ++ (if q.contains QUOTE then ["quoted"] else []) ++ (if q.contains BACKTICK then ["backquote"] else [])
      ++ (if p.sel.any (·.op != .last) then ["agg"] else []) ++ (if p.groupKey ≠ [] then ["group"] else []))
  | .ok none => "empty"
  | .err e => "err:" ++ ((e.splitOn " ").take 2 |> joinWith "_")
  | .panic _ => "panic"

/-- the rows of the float table: token ↦ canonical value text -/
def floatRowsOf (s : String) : List (Bytes × Bytes) :=
  if s = "-" then [] else (s.splitOn ",").filterMap fun r =>
    match r.splitOn "=" with
    | [k, v] => match unhex k, unhex v with
      | some k, some v => some (k, v)
      | _, _ => none
    | _ => none

/-- tie G: `NewQuery` as translated (panic-aware) from internal/mapr on this run, on the same query text.  The external
    functions are answered from the same tables as the model's oracles: `strconv.ParseFloat` returns the row number of
    the token in the float table (an opaque number: only its text is observable), `funcs.NewFunctionStack` and
    `strconv.Atoi` are the model's. -/
def c11translated (table : String) (q : Bytes) : String :=
  let rows := floatRowsOf table
  let ext : Go.Ext :=
    { parseFloat := fun t => match rows.findIdx? (·.1 == t) with | some k => (((k : Nat) : Int) + 1, none) | none => (0, some (b!"syntax")),
      atoi := fun t => match atoi t with | some n => (n, none) | none => (0, some (b!"syntax")),
      newFunctionStack := fun t => match funcStack t with
        | .ok (fs, arg) => (fs, arg, none)
        | .err e => ([], [], some (str e))
        | .panic e => ([], [], some (str ("PANIC " ++ e))),
      fuel := q.length + 2 }
  let ftxt (v : Int) : Bytes := if v ≤ 0 then [] else ((rows[(v - 1).toNat]?).map (·.2)).getD []
  match Gen.MaprQuery.NewQuery ext q with
  | .ok (some g, none) =>
    let sel := g.Select.map fun s => s!"{hx s.Field}|{hx s.FieldStorage}|{s.Operation}"
    let whr := g.Where.map fun w => s!"{w.lType}|{hx w.lString}|{hx (ftxt w.lFloat)}|{w.Operation}|{w.rType}|{hx w.rString}|{hx (ftxt w.rFloat)}"
    let set := g.Set.map fun c => s!"{hx c.lString}|{c.rType}|{hx c.rString}|{hx (ftxt c.rFloat)}|{hx (joinByte 43 c.functionStack)}"
    let out := match g.Outfile with | none => "none" | some o => s!"{hx o.FilePath}/{boolStr o.AppendMode}"
    s!"sel={vjoin sel};table={hx g.Table};where={vjoin whr};set={vjoin set};group={vjoin (g.GroupBy.map hx)};order={hx g.OrderBy};rev={boolStr g.ReverseOrder};key={hx g.GroupKey};interval={Int.tdiv g.Interval 1000000000};limit={g.Limit};outfile={out};logformat={hx g.LogFormat}"
  | .ok (none, none) => "NIL"
  | .ok (_, some _) => "ERR"
  | .err _ => "ERR"
  | .panic _ => "PANIC"

def opC11Parse : List String → Res
  | [qh, expected, table] => match unhex qh with
    | some q =>
      let r := newQuery (floatTableOf table) q
      let m0 := match r with
        | .ok (some p) => dumpQuery p
        | .ok none => "NIL"
        | .err _ => "ERR"
        | .panic p => "PANIC " ++ p
      let gen := c11translated table q
      let m := if gen = m0 ∨ (gen = "PANIC" ∧ m0.startsWith "PANIC") then m0 else m0 ++ " TRANSLATED=" ++ gen
      { m := m, s := if expected = "-" then "-" else
          (match unhex expected with | some e => String.fromUTF8! ⟨e.toArray⟩ | none => "-"),
        t := c11tags q r }
    | none => bad
  | _ => bad

/-! C09 -/

def specKey (s : Bytes) : Option Key :=
  match s with
  | c :: rest => if c = 107 ∨ c = 111 ∨ c = 114 ∨ c = 120 then some rest else none   -- k o r x
  | [] => none

/-- tie G: `verifyAuthorizedKeys` as translated from the working tree on this run, on the file rendered as newline-terminated
    spec lines, with a `ParseAuthorizedKey` that skips to the first key line (the contract the harness checks per line) -/
def c09translatedKeys (lines : List Bytes) (offered : Bytes) : String :=
  let enc (ls : List Bytes) : Bytes := ls.flatMap (· ++ [NL])
  let parse : Go.GoString → Go.GoString × Go.GoString × List Go.GoString × Go.GoString × Go.GoErr := fun b =>
    match ((splitOnByte NL b).dropLast).dropWhile (fun l => (specKey l).isNone) with
    | [] => ([], [], [], [], some (b!"no key found"))
    | k :: rest => ((specKey k).getD [], [], [], enc rest, none)
  let ext : Go.Ext := { parseFloat := fun _ => (0, none), parseAuthorizedKey := parse, fuel := (enc lines).length + lines.length + 2 }
  match Gen.Keys.verifyAuthorizedKeys ext {} (enc lines) offered with
  | .ok (_, none) => "accept"
  | .ok (_, some _) => "reject"
  | _ => "PANIC"

def opC09Keys : List String → Res
  | [specs, _nl, offered] =>
    let lines := if specs = "-" then [] else (specs.splitOn ",").map str
    let acc := verifyAuthorizedKeys specKey lines (str offered)
    let gen := c09translatedKeys lines (str offered)
    if gen ≠ (if acc then "accept" else "reject") ∧ !lines.any (·.contains NL) then
      { m := "TRANSLATED-KEYCHECK-DIFFERS-FROM-MODEL:" ++ gen, s := if lines.any (fun l => specKey l = some (str offered)) then "accept" else "reject", t := "translated-differs" } else
    let wanted := lines.any (fun l => specKey l = some (str offered))
    let last := lines.getLast?.bind specKey
    { m := if acc then "accept" else "reject", s := if wanted then "accept" else "reject",
      t := joinWith "," ((if wanted then ["listed"] else []) ++ (if lines.any (fun l => (specKey l).isNone) then ["noise"] else [])
        ++ (if last.isNone ∧ !lines.isEmpty then ["trailing-noise"] else []) ++ (if lines.length > 3 then ["long"] else [])) }
  | _ => bad

/-- the whole callback: a session only for a key some line of the user's key file carries — and for no key at
    all when that file cannot be found or read -/
def opC09Callback : List String → Res
  | [wher, specs, nl, offered] =>
    if wher = "cache" then
      let r := opC09Keys [specs, nl, offered]
      { r with t := joinWith "," (["callback"] ++ (if r.t = "" ∨ r.t = "-" then [] else [r.t])) }
    else { m := "reject", s := "reject", t := "callback,keyfile-" ++ wher }
  | _ => bad

def parseJobs (s : String) : List Job × List Job :=
  if s = "-" then ([], []) else
  let js := (s.splitOn ";").filterMap fun j => match j.splitOn ":" with
    | [k, n, a] => some (k, (⟨str n, if a = "" then [] else (a.splitOn "+").map str⟩ : Job))
    | _ => none
  ((js.filter (·.1 = "S")).map (·.2), (js.filter (·.1 = "C")).map (·.2))

/-- tie G: `Server.Callback` as translated from the working tree on this run, on the same login (the differential run uses
    IP literals, which `net.LookupIP` returns as they are; `user.New` keeps the name) -/
def c09translated (sch cont : List Job) (u pw ip : Bytes) : String :=
  let gj := fun (j : Job) => ({ Name := j.name, AllowFrom := j.allowFrom } : Go.GoJob)
  let ext : Go.Ext := { parseFloat := fun _ => (0, none), schedule := sch.map gj, continuous := cont.map gj }
  match Gen.Auth.Server.Callback ext {} { user := u, remoteAddr := ip ++ str ":40000" } pw with
  | .ok (_, _, none) => "accept"
  | .ok (_, _, some _) => "reject"
  | _ => "PANIC"

def opC09Password : List String → Res
  | [u, pw, ip, jobs] => match unhex u, unhex pw, unhex ip with
    | some u, some pw, some ip =>
      let (sch, cont) := parseJobs jobs
      let r := passwordCallback (fun a => [a]) sch cont u pw ip
      let r := if r then "accept" else "reject"
      let gen := c09translated sch cont u pw ip
      if gen ≠ r then { m := "TRANSLATED-CALLBACK-DIFFERS-FROM-MODEL:" ++ gen, s := r, t := "translated-differs" } else
      { m := r, s := r, t := joinWith "," ((if r = "accept" then ["granted"] else [])
          ++ (if u = Facts.healthUserBytes then ["health"] else if u = Facts.scheduleUserBytes then ["schedule"]
              else if u = Facts.continuousUserBytes then ["continuous"] else ["other"])) }
    | _, _, _ => bad
  | _ => bad

def opC09PwSeq : List String → Res
  | [jobs, attempts] =>
    let (sch, cont) := parseJobs jobs
    let rs := (attempts.splitOn ",").map fun at' => match at'.splitOn ":" with
      | [u, pw, ip] => (match unhex u, unhex pw, unhex ip with
        | some u, some pw, some ip =>
          let r := if passwordCallback (fun a => [a]) sch cont u pw ip then "accept" else "reject"
          if c09translated sch cont u pw ip = r then r else "TRANSLATED-CALLBACK-DIFFERS-FROM-MODEL"
        | _, _, _ => "bad")
      | _ => "bad"
    let r := joinWith "," rs
    { m := r, s := r, t := joinWith "," ((if rs.contains "accept" then ["granted"] else []) ++ (if rs.contains "reject" then ["rejected"] else [])
        ++ (if rs.length > 1 then ["sequence"] else [])) }
  | _ => bad

def opC09Health : List String → Res
  | [h] => match unhex h with
    | some cmd =>
      let r := match decodeInner env10 cmd with
        | .ok d => (match healthCommand d.name with
            | .ok => "OK"
            | .ack => if d.argc < 3 then "MSG" else "none"
            | .error => "MSG")
        | .err _ => "MSG"
        | .panic p => "PANIC " ++ p
      { m := r ++ ";data=0", s := (if r = "OK" ∨ r = "none" ∨ r = "MSG" then r else "no-reader") ++ ";data=0",
        t := if r = "OK" then "ok" else if r = "MSG" then "rejected" else "-" }
    | none => bad
  | _ => bad

/-! C17 -/

def parseNewHosts (s : String) : Option (List NewHost) :=
  if s = "-" then some [] else
  (s.splitOn ";").mapM fun h => match (h.splitOn ",").mapM unhex with
    | some [hl, il, a1, a2] => some ⟨hl, il, [a1, a2]⟩
    | _ => none

/-- tie G: `trustHosts` as translated from the working tree on this run: what it writes into the temporary file (the
    normalised addresses come from the oracle: the server name and the remote address stand for themselves) -/
def c17translated (hosts : List NewHost) (oldLines : List Bytes) : Option Bytes :=
  let ext : Go.Ext := { parseFloat := fun _ => (0, none), scanLines := fun _ => oldLines }
  let gh := hosts.map fun h => ({ server := h.addrs.headD [], remote := h.addrs.getD 1 [], hostLine := h.hostLine, ipLine := h.ipLine } : Gen.KnownHosts.unknownHost)
  match Gen.KnownHosts.KnownHostsCallback.trustHosts ext ⟨str "/k", []⟩ gh with
  | .ok c => some (c.ops.filterMap fun op => match op with | .write _ d => some d | _ => none).flatten
  | _ => none

def opC17Trust : List String → Res
  | [old, _hosts, oracle] => match unhex old, parseNewHosts oracle with
    | some old, some hosts =>
      let out := trustHostsFile 65536 hosts old
      let genBad := c17translated hosts (scanLinesLimit 65536 old) != some out
      let oldLines := scanLinesLimit 65536 old
      let raw := scanLinesLimit.scanLinesRaw old
      let replaced := oldLines.filter (fun l => (hosts.flatMap (·.addrs)).contains (lineAddress l))
      -- specification: new entries, then every old line not being replaced, each once, in order
      let spec := (hosts.flatMap (fun h => [h.hostLine, h.ipLine]) ++
                   (raw.map dropCR).filter (fun l => !(hosts.flatMap (·.addrs)).contains (lineAddress l))).flatMap (· ++ [NL])
      { m := if genBad then "TRANSLATED-TRUSTHOSTS-DIFFERS-FROM-MODEL" else hexOf out ++ ";tmpleft=false", s := hexOf spec ++ ";tmpleft=false",
        g := if raw.any (fun l => l.length ≥ 65536) then "long-line" else "-",
        t := joinWith "," ((if !hosts.isEmpty then ["newhost"] else []) ++ (if !replaced.isEmpty then ["replaced"] else [])
          ++ (if oldLines.any (fun l => l.head? = some 124) then ["hashed"] else [])
          ++ (if oldLines.any (fun l => l.head? = some 35) then ["comment"] else [])
          ++ (if old.contains 13 then ["crlf"] else []) ++ (if old.getLast? ≠ some NL ∧ !old.isEmpty then ["nofinalnl"] else [])) }
    | _, _ => bad
  | _ => bad

def opC17Wrap : List String → Res
  | [state, trustAll, answers] =>
    let st := if state = "known" then HostState.known else if state = "changed" then .changed else .unknown
    let render (v : Verdict) : String := match v with
      | .proceed => s!"proceed;untrusted=false;recorded=true;keptother=true"
      | .refuse => s!"refuse;untrusted=true;recorded=false;keptother=true"
      | .waiting => "timeout;untrusted=false;recorded=false;keptother=true"
    -- several attempts through the same callback (rounds separated by '|'): a refusal leaves no trace that could
    -- let a later attempt through — every round is decided on its own answers
    let rounds := answers.splitOn "|"
    if rounds.length > 1 then
      let vs := rounds.map fun r => wrapDecision st (trustAll = "1") ((r.splitOn ",").map str)
      let word (v : Verdict) : String := match v with | .proceed => "proceed" | .refuse => "refuse" | .waiting => "timeout"
      -- the model covers sequences whose rounds before the last are refusals (nothing is recorded by a refusal)
      let supported := (vs.dropLast).all fun v => v == .refuse
      let r := joinWith "|" (vs.map word)
      { m := if supported then r else "-", s := if supported then r else "-", t := s!"{state},rounds" }
    else
    -- CANCEL: nobody answers and the client's context ends — no answer is no approval
    let ans := if answers = "CANCEL" then [] else (answers.splitOn ",").map str
    let v := wrapDecision st (trustAll = "1") ans
    let r := render v
    { m := r, s := r, t := s!"{state},{if trustAll = "1" then "trustall" else "ask"}" }
  | _ => bad

/-- a whole client, built as cmd/dcat builds it: which host key check is in force must not depend on where the user's
    private key comes from; only the programmatic case (auth methods handed in) skips the check -/
def opC17Client : List String → Res
  | [auth, trustAll, state, answer] =>
    let st := if state = "known" then HostState.known else .unknown
    let v := if auth = "preset" then Verdict.proceed else wrapDecision st (trustAll = "1") [str answer]
    let proceed := v == .proceed
    let recorded := state = "known" ∨ (proceed ∧ auth ≠ "preset")
    let r := s!"session={boolStr proceed};commands={boolStr proceed};recorded={boolStr recorded};keptother=true"
    { m := r, s := r, t := s!"client,{auth},{state},{if trustAll = "1" then "trustall" else "ask"}" }
  | _ => bad

/-! C08 -/

/-- the documented rule syntax, read independently of the model: ["readfiles:"]["!"]regex -/
def specRuleOf (rule : Bytes) : Bool × Bytes :=
  let r := if hasPrefix (b!"readfiles:") rule then rule.drop 10 else rule
  if r.head? = some BANG then (true, r.drop 1) else (false, r)

structure PathOracle where
  clean : Option Bytes
  regular : Bool
  bits : List Char        -- per rule (spec's regex): 'E' no compile, '1' match, '0' no match

def parsePathOracle (s : String) : Option PathOracle :=
  if s = "unresolved" then some ⟨none, false, []⟩ else
  match s.splitOn "," with
  | [c, r, b] => (unhex c).map fun c => ⟨some c, r = "true", b.toList⟩
  | [c, r] => (unhex c).map fun c => ⟨some c, r = "true", []⟩
  | _ => none

/-- the model's decision, with the regexp engine answered from the oracle table; `none` if
    the model asks about a regex the table does not cover (its parse differs from the spec's) -/
def c08decide (user : Bytes) (rules : List Bytes) (o : PathOracle) : Option Bool × Bool × Bool :=
  let specs := rules.map specRuleOf
  let table : List (Bytes × Char) := (specs.map (·.2)).zip o.bits
  let covered := (rules.map parseRule).all fun r => table.any (·.1 == r.regex)
  let m : MatchOracle := fun re _ => match table.find? (·.1 == re) with
    | some (_, '1') => some true
    | some (_, '0') => some false
    | _ => none
  let fs : FsOracle := { resolve := fun _ => o.clean, regular := fun _ => o.regular }
  let modelAns0 := hasFilePermission fs m user rules []
  -- tie G: `User.iteratePaths` as translated from the working tree, on the same rules and oracle table, must give the
  -- rule verdict of the model (run whenever the model gets as far as the rules)
  let ext : Go.Ext := { parseFloat := fun _ => (0, none),
                        reCompile := fun rx => (⟨rx, true⟩, if (m rx []).isNone then some (b!"error") else none),
                        reMatchRaw := fun re _ => m re.src [] == some true }
  let gen := (Gen.User.User.iteratePaths ext { Name := user, permissions := rules } (o.clean.getD []) READFILES).2.1
  let reachesRules := !(user = Facts.scheduleUserBytes ∨ user = Facts.continuousUserBytes) ∧ o.clean.isSome ∧ o.regular
  let modelAns := modelAns0
  -- … and the whole translated `HasFilePermission`, with the file system answered from the oracle, the model's decision
  let extFs : Go.Ext := { ext with
    evalSymlinks := fun p => match o.clean with | some c => (c, none) | none => (p, some (b!"no such file")),
    osLstat := fun _ => ({ regular := o.regular }, none) }
  let genAll := (Gen.User.User.HasFilePermission extFs { Name := user, permissions := rules } [] READFILES).2
  let genOk := (!reachesRules || gen == modelAns0) && genAll == modelAns0
  -- specification: last matching rule (spec syntax) is an allow, all compile, regular, resolved
  let specAns :=
    if user = Facts.scheduleUserBytes ∨ user = Facts.continuousUserBytes then true else
    o.clean.isSome && o.regular && !o.bits.contains 'E' &&
      (((specs.zip o.bits).filter (·.2 == '1')).getLast?.map (fun p => !p.1.1) == some true)
  (if covered ∨ o.clean.isNone ∨ !o.regular then some modelAns else none, specAns, genOk)

def parseRulesArg (s : String) : Option (List Bytes) :=
  if s = "-" then some [] else (s.splitOn ",").mapM unhex

def opC08Perm : List String → Res
  | [u, _path, rules, oracle] => match unhex u, parseRulesArg rules, parsePathOracle oracle with
    | some u, some rules, some o =>
      let (mo, sp, genOk) := c08decide u rules o
      let render (b : Bool) := if rules.isEmpty then "nouser" else boolStr b
      { m := if !genOk then "TRANSLATED-ITERATEPATHS-DIFFERS-FROM-MODEL" else match mo with | some b => render b | none => "model-asks-uncovered-regex", s := render sp,
        t := joinWith "," ((if sp then ["allowed"] else ["denied"]) ++ (if o.clean.isNone then ["unresolved"] else [])
          ++ (if !o.regular ∧ o.clean.isSome then ["special"] else []) ++ (if o.bits.contains 'E' then ["badregex"] else [])
          ++ (if rules.any (fun r => (specRuleOf r).2.contains COLON) then ["colon-in-pattern"] else [])
          ++ (if rules.any (fun r => (specRuleOf r).1) then ["deny-rule"] else [])) }
    | _, _, _ => bad
  | _ => bad

def opC08CatCore (rules oracle : String) : Res :=
  match parseRulesArg rules with
    | some rules =>
      let os := if oracle = "-" then [] else (oracle.splitOn ";").filterMap parsePathOracle
      let decide (o : PathOracle) := (c08decide (b!"verif") rules o)
      let servedBy (f : PathOracle → Bool) : String :=
        -- a regular file in the tree holds "F:<relative name>"; the served lines are those tokens, sorted
        let names := (os.filter f).filterMap fun o => o.clean.map fun c =>
          let parts := splitOnByte 47 c
          -- relative name = the path below the tree root (c08tree-<pid>/...)
          let idx := (parts.findIdx? (fun p => hasPrefix (b!"c08tree-") p)).getD 0
          b!"F:" ++ joinByte 47 (parts.drop (idx + 1))
        hexOf (joinByte 124 (sortBytes names))
      let mServed := servedBy fun o => (decide o).1 == some true
      let sServed := servedBy fun o => (decide o).2.1
      let anyDenied (f : PathOracle → Bool) := os.any (fun o => !f o) ∨ os.isEmpty
      if rules.isEmpty then { m := "nouser", s := "nouser" } else
      { m := s!"served={mServed};warned={boolStr (anyDenied fun o => (decide o).1 == some true)}",
        s := s!"served={sServed};warned={boolStr (anyDenied fun o => (decide o).2.1)}",
        t := joinWith "," ((if os.length > 1 then ["glob"] else []) ++ (if mServed ≠ "-" then ["served"] else ["nothing"])) }
    | none => bad

/-- the command word and the options a client sends (third argument) do not enter the decision -/
def opC08Cat : List String → Res
  | [_glob, rules, oracle] => opC08CatCore rules oracle
  | [_glob, rules, _head, oracle] => opC08CatCore rules oracle
  | _ => bad

/-! C05 -/

def AMP : UInt8 := 38

def parseAbstractLine (b : Bytes) : Fields :=
  if b.isEmpty then [] else
  (splitOnByte AMP b).filterMap fun e => match splitN EQ 2 e with
    | [k, v] => some (k, v)
    | _ => none

/-- last binding wins, as in a Go map -/
def dedupFields (fs : Fields) : Fields :=
  fs.foldl (fun acc (k, v) => acc.filter (·.1 ≠ k) ++ [(k, v)]) []

def parseServers (s : String) : Option (List (List (List Fields))) :=
  if s = "-" then some [] else
  (s.splitOn "/").mapM fun sv => (sv.splitOn ";").mapM fun iv =>
    if iv = "" ∨ iv = "-" then some [] else (iv.splitOn ",").mapM fun l => (unhex l).map (dedupFields ∘ parseAbstractLine)

def intOracle : FloatOracle := fun t => (atoi t).map (fun n => str (toString n))

def dumpGroups (g : Groups) : String :=
  if g.isEmpty then "empty" else
  let sorted := (g.toArray.qsort (fun a b => compare a.1 b.1 == .lt)).toList
  joinWith " " (sorted.map fun (k, s) =>
    let cols := s.cols.map fun c => s!"{c.num.getD 0}|{hexOf (c.str.getD [])}"
    s!"{hexOf k}:{s.samples}:{joinWith "," cols}")

def rowEntry (r : Row) : String × String := (hexOf (fmtRat r.orderBy), joinWith "," (r.cells.map hexOf))

/-- rows with the same rendered order key in text order (the choice among tied rows is free; so is the whole
    order when the query has no ordering clause: Go ranges over a map) -/
def canonRows (ordered : Bool) (es : List (String × String)) : String :=
  let strs (l : List (String × String)) : List String := l.map fun (k, c) => k ++ "|" ++ c
  let sortS (l : List String) : List String := (l.toArray.qsort (· < ·)).toList
  if !ordered then "U:" ++ joinWith ";" (sortS (strs es))
  else "O:" ++ joinWith ";" ((es.splitBy (fun a b => a.1 == b.1)).flatMap fun run => sortS (strs run))

def opC05AggCore (qh format servers : String) : Res :=
  match unhex qh, parseServers servers with
    | some qs, some svs =>
      match newQuery intOracle qs with
      | .ok (some q) =>
        let header := sortBytes ((svs.flatten.flatten.flatMap (·.map (·.1))).eraseDups)
        let prep (fs : Fields) : Option Fields :=
          -- the log format decides which fields a line has
          let fs := if format = "csv" then header.map (fun h => (h, (getField fs h).getD [])) else fs
          if format = "default" ∧ fs.isEmpty then none          -- fewer than 11 '|' parts: ignored
          else
            let fs := fs ++ [(b!"*", b!"*"), (b!"$empty", [])]
            if whereClause q.whr fs then some (setClause q.set fs) else none
        let partials := svs.flatten.map (·.filterMap prep)
        let d := distributed q.sel q.groupBy partials
        let c := central q.sel q.groupBy partials.flatten
        let ops := (q.sel.map (·.op)).eraseDups
        -- the ordered rows of the final report (internal/mapr/groupset.go result()); limit: c15.write
        let rowsOf (g : Groups) : String := canonRows (q.orderBy != []) ((orderRows q (g.map (rowOf q))).map rowEntry)
        { m := dumpGroups d ++ "@rows=" ++ rowsOf d, s := dumpGroups c ++ "@rows=" ++ rowsOf c,
          t := joinWith "," ((if partials.length > 1 then ["multi-part"] else []) ++ (if d.length > 1 then ["multi-group"] else [])
            ++ (if !q.whr.isEmpty then ["where"] else []) ++ (if !q.set.isEmpty then ["set"] else [])
            ++ (if ops.contains .min ∨ ops.contains .max then ["minmax"] else []) ++ (if ops.contains .avg then ["avg"] else [])
            ++ (if ops.contains .last ∨ ops.contains .len then ["lastlen"] else [])
            ++ (if partials.any (·.isEmpty) then ["empty-part"] else [])
            ++ (if q.orderBy != [] ∧ d.length > 1 then ["ordered"] else [])
            ++ (if q.orderBy != [] ∧ ((d.map (rowOf q)).map (·.orderBy)).eraseDups.length < d.length then ["tied-rows"] else [])) }
      | _ => { m := "query-error" }
    | _, _ => bad

/-- the fourth argument chooses how the harness runs the server side (accessor per interval, or the real aggregator
    goroutines); the model is the same — by `C05_pipeline` the final result does not depend on where the partial
    results cut the line stream -/
def opC05Agg : List String → Res
  | [qh, format, servers] => opC05AggCore qh format servers
  | [qh, format, servers, _how] => opC05AggCore qh format servers
  | _ => bad

/-! C15 -/

structure GroupSpec where
  key : Bytes
  samples : Nat
  cols : List (Bytes × Option Int × Option Bytes)

def parseGroups (s : String) : Option (List GroupSpec) :=
  if s = "-" then some [] else
  (s.splitOn ";").mapM fun gs => match gs.splitOn ":" with
    | [k, n, cols] => do
      let k ← unhex k
      let n ← n.toNat?
      let cols ← (if cols = "" then some [] else (cols.splitOn ",").mapM fun c => match c.splitOn "=" with
        | [st, v] => match v.splitOn "|" with
          | [f, sv] => do
            let st ← unhex st
            let sv ← if sv = "" then some none else (unhex sv).map some
            pure (st, f.toInt?, sv)
          | _ => none
        | _ => none)
      pure ⟨k, n, cols⟩
    | _ => none

/-- a group as the case line gives it, as a group of the model: one column per select condition -/
def groupOfSpec (q : Query) (g : GroupSpec) : Bytes × AggSet :=
  (g.key, { samples := g.samples, cols := q.sel.map fun sc =>
    match g.cols.find? (·.1 == sc.storage) with
    | some (_, f, sv) => { num := f, str := sv }
    | none => {} })

def outReqOf (q : Query) (raw : Bytes) (groups : List GroupSpec) (final : Bool) : Option OutReq :=
  match q.outfile with
  | none => none
  | some (path, app) =>
    -- the model's report (Model/Result.lean): rows rendered and ordered; `limitedRows` applies the limit
    let rows := orderRows q ((groups.map (groupOfSpec q)).map (rowOf q))
    some { path := path, append := app, rawQuery := raw, header := q.sel.map (·.storage),
           rows := rows.map (·.cells), limit := q.limit, final := final }

def relName (path p : Bytes) : Bytes :=
  -- paths are reported relative to the outfile's directory
  let dir := (path.reverse.dropWhile (· ≠ 47)).reverse
  if hasPrefix dir p then p.drop dir.length else p

def renderOp (path : Bytes) : FOp → String
  | .openTrunc p => "T:" ++ hexOf (relName path p)
  | .openAppend p => "A:" ++ hexOf (relName path p)
  | .write p d => "W:" ++ hexOf (relName path p) ++ ":" ++ hexOf d
  | .rename s d => "R:" ++ hexOf (relName path s) ++ ">" ++ hexOf (relName path d)

def fileStr (fs : FS) (p : Bytes) : String := match fsGet fs p with | none => "none" | some c => if c.isEmpty then "-" else hexOf c

def stateStr (fs : FS) (path : Bytes) : String :=
  s!"out={fileStr fs path};tmp={fileStr fs (path ++ TMP)};query={fileStr fs (path ++ QUERYEXT)};qtmp={fileStr fs (path ++ QUERYEXT ++ TMP)}"

/-- the files a killed run left, as the harness reports them (`out=…;tmp=…;query=…;qtmp=…`, each `none`, `-` or hex) -/
def obsState (path : Bytes) (observed : String) : Option FS :=
  let file (tag : String) (p : Bytes) (s : String) : Option FS :=
    if !s.startsWith (tag ++ "=") then none else
    let v := (s.drop (tag.length + 1)).toString
    if v = "none" then some [] else if v = "-" then some [(p, [])] else (unhex v).map fun c => [(p, c)]
  match observed.splitOn ";" with
  | [a, b, c, d] =>
    match file "out" path a, file "tmp" (path ++ TMP) b, file "query" (path ++ QUERYEXT) c, file "qtmp" (path ++ QUERYEXT ++ TMP) d with
    | some x, some y, some z, some w => some (x ++ y ++ z ++ w)
    | _, _, _, _ => none
  | _ => none

/-- tie G: `GroupSet.WriteResult` as translated from the working tree on this run, on the same request: the file operations it
    records (none of them failing, `os.Stat` answering for `fs0`) as operations of the model -/
def c15translated (fs0 : FS) (r : OutReq) : Option (List FOp) :=
  let stat : Go.GoString → Go.GoFileInfo × Go.GoErr := fun p => match fsGet fs0 p with
    | some c => ({ size := c.length }, none)
    | none => ({}, some [])
  let ext : Go.Ext := { parseFloat := fun _ => (0, none), rowValues := r.rows, osStat := stat }
  let q : Gen.Outfile.Query := { Select := r.header.map (fun h => ⟨h⟩), Limit := r.limit, Outfile := some ⟨r.path, r.append⟩, RawQuery := r.rawQuery }
  match Gen.Outfile.GroupSet.WriteResult ext {} q r.final with
  | .ok (g, none) => some (g.ops.filterMap GenOutfile.toFOp)
  | _ => none

/-- c15.seq: n interim writes and the final one of one client run, each on the file system the earlier ones left -/
def opC15Seq : List String → Res
  | [qh, groups, n, pre] => match unhex qh, parseGroups groups, n.toNat? with
    | some qt, some gs, some n =>
      let path := b!"/d/out.csv"
      let raw := match splitOnSub qt (b!"@O") with
        | [] => []
        | p0 :: more => more.foldl (fun acc x => acc ++ path ++ x) p0
      match newQuery intOracle raw with
      | .ok (some q) => match outReqOf q raw gs false, outReqOf q raw gs true with
        | some ri, some rf =>
          let fs0 : FS := if pre = "none" then [] else [(path, if pre = "-" then [] else (unhex pre).getD [])]
          let step (fs : FS) (r : OutReq) : FS := applyOps fs (writeResultOps fs r)
          let fs := step ((List.range n).foldl (fun fs _ => step fs ri) fs0) rf
          let old := (fsGet fs0 path).getD []
          -- the specification: replace mode ends with the complete result; append mode keeps what was there, adds the header
          -- to an absent or empty file once, and appends the rows once per write
          let rowsBytes := (limitedRows rf).flatMap csvLine
          let specOut : Bytes :=
            if rf.append then old ++ (if old.isEmpty then csvLine rf.header else []) ++ ((List.range (n + 1)).flatMap fun _ => rowsBytes)
            else completeResult rf
          { m := stateStr fs path, s := (if specOut.isEmpty then "-" else hexOf specOut),
            t := joinWith "," ((if rf.append then ["append"] else ["replace"]) ++ (if n > 0 then ["interim"] else [])
              ++ (if pre ≠ "none" then ["existing"] else [])) }
        | _, _ => { m := "no-outfile" }
      | _ => { m := "query-error" }
    | _, _, _ => bad
  | _ => bad

def opC15Write : List String → Res
  | qh :: groups :: final :: pre :: kill :: rest => match unhex qh, parseGroups groups with
    | some qt, some gs =>
      -- the harness substitutes the real path for @O; the model uses a fixed one in the same shape
      let path := b!"/d/out.csv"
      let raw := match splitOnSub qt (b!"@O") with
        | [] => []
        | p0 :: more => more.foldl (fun acc x => acc ++ path ++ x) p0
      match newQuery intOracle raw with
      | .ok (some q) => match outReqOf q raw gs (final = "1") with
        | some r =>
          let (preOut, preTmp) := match pre.splitOn "/" with
            | [o, t] => (o, t)
            | _ => (pre, "none")
          let fs0 : FS := (if preOut = "none" then [] else [(path, (unhex preOut).getD [])])
            ++ (if preTmp = "none" then [] else [(path ++ TMP, (unhex preTmp).getD [])])
          let ops := writeResultOps fs0 r
          let genBad := c15translated fs0 r != some ops
          let old := fsGet fs0 path
          let okState (fs : FS) : Bool :=
            if r.append then
              -- earlier bytes are never altered
              (match old with | none => true | some o => o.isPrefixOf ((fsGet fs path).getD []))
            else (fsGet fs path == old ∨ (fsGet fs path == some (completeResult r) ∧ fsGet fs (path ++ QUERYEXT) == some raw))
          if kill = "0" then
            let fs := applyOps fs0 ops
            let appendSpec : Bytes := (old.getD []) ++ (if (old.getD []).isEmpty then csvLine r.header else []) ++ (limitedRows r).flatMap csvLine
            let specOut : String :=
              if r.append then hexOf appendSpec
              else if r.final then hexOf (completeResult r) else (match old with | none => "none" | some o => if o.isEmpty then "-" else hexOf o)
            { m := if genBad then "TRANSLATED-WRITERESULT-DIFFERS-FROM-MODEL" else s!"ops={joinWith " " (ops.map (renderOp path))};{stateStr fs path}",
              s := specOut,
              t := joinWith "," ((if r.append then ["append"] else ["replace"]) ++ (if r.final then ["final"] else ["interim"])
                ++ (if old.isSome then ["existing"] else []) ++ (if preTmp ≠ "none" then ["stale-tmp"] else [])
                ++ (if r.rows.length > 1 then ["rows"] else [])
                ++ (if r.limit ≥ 0 then ["limit"] else [])) }
          else
            -- kill run: the observed state must be the state after some prefix of the operations
            let observed := rest.headD "-"
            let states := (List.range (ops.length + 1)).map fun k => applyOps fs0 (ops.take k)
            let hit := states.find? (fun fs => stateStr fs path == observed)
            { m := if genBad then "TRANSLATED-WRITERESULT-DIFFERS-FROM-MODEL" else match hit with | some _ => "killed;" ++ observed | none => "killed;NOT-A-PREFIX-STATE",
              s := match hit with
                | some fs => if okState fs then "killed;" ++ observed else "killed;PROPERTY-VIOLATED"
                | none =>
                  -- not a state of the model's run: the property's own statement is evaluated on the files that were observed
                  match obsState path observed with
                  | some fs => if okState fs then "-" else "killed;PROPERTY-VIOLATED"
                  | none => "-",
              t := "kill" }
        | none => { m := "no-outfile" }
      | _ => { m := "query-error" }
    | _, _ => bad
  | _ => bad

/-! C13 -/

/-- the harness' script ops mapped to model labels.  A started read acquires or queues
    (decided by the state, as in the real select with default); cancelling a holding read has
    no effect until its file ends (the read blocks in read(2)); `F` ends the file. -/
structure C13Run where
  st : LimState
  cancelled : List Nat := []     -- reads whose context is cancelled
  fileEnded : List Nat := []     -- reads whose FIFO writer is closed
  ok : Bool := true

def c13returned (r : C13Run) : Nat := (r.st.reads.filter (fun p => p = .finished ∨ p = .cancelled)).length

/-- internal steps until quiescence: waiting reads acquire when a slot is free (lowest index
    first is one admissible schedule; the harness only lets at most one read wait for a free
    slot when it compares token counts) -/
def c13settle : Nat → C13Run → C13Run
  | 0, r => r
  | fuel + 1, r =>
    -- a holding read whose file ended finishes
    match (List.range r.st.reads.length).find? (fun i => r.st.reads[i]? = some .holding ∧ r.fileEnded.contains i) with
    | some i => match limStep r.st (.finish i) with
      | some s => c13settle fuel { r with st := s }
      | none => { r with ok := false }
    | none =>
      match (List.range r.st.reads.length).find? (fun i => r.st.reads[i]? = some .waiting ∧ r.cancelled.contains i) with
      | some i => match limStep r.st (.cancelWhileWaiting i) with
        | some s => c13settle fuel { r with st := s }
        | none => { r with ok := false }
      | none =>
        match (List.range r.st.reads.length).find? (fun i => r.st.reads[i]? = some .waiting) with
        | some i => if r.st.tokens < r.st.cap then
            match limStep r.st (.acquireAfterWait i) with
            | some s => c13settle fuel { r with st := s }
            | none => { r with ok := false }
          else r
        | none => r

def c13op (r : C13Run) (op : String) : C13Run :=
  let i := ((op.drop 1).toString.toNat?).getD 0
  let r := match op.toList.head? with
    | some 'S' =>
      let l := if r.st.tokens < r.st.cap then LimLabel.tryAcquire i else LimLabel.startWait i
      (match limStep r.st l with | some s => { r with st := s } | none => { r with ok := false })
    | some 'D' =>
      -- a read whose session is already gone when it starts, on a file that has already ended: whichever way the
      -- first select goes (slot or Done), the read is over at once and holds nothing
      let r := { r with cancelled := i :: r.cancelled, fileEnded := i :: r.fileEnded }
      let l := if r.st.tokens < r.st.cap then LimLabel.tryAcquire i else LimLabel.startWait i
      (match limStep r.st l with | some s => { r with st := s } | none => { r with ok := false })
    | some 'C' => { r with cancelled := i :: r.cancelled }
    | some 'F' => { r with fileEnded := i :: r.fileEnded }
    | _ => { r with ok := false }
  c13settle 64 r

def opC13Script : List String → Res
  | [cap, ops] => match cap.toNat? with
    | some cap =>
      let opl := (ops.splitOn ",").filter (· ≠ "")
      let n := opl.length
      let (r, obs) := opl.foldl (fun (acc : C13Run × List String) op =>
          let r := c13op acc.1 op
          (r, acc.2 ++ [s!"{r.st.tokens}/{c13returned r}/{holding r.st.reads}"])) ({ st := limInit cap n }, [])
      -- at the end every read is cancelled and every file ended: all tokens must be back
      let maxHold := obs.foldl (fun m o => max m ((o.splitOn "/").getD 2 "0" |>.toNat?.getD 0)) 0
      { m := if r.ok then joinWith "," obs ++ ";final=0" else "MODEL-LABEL-NOT-ENABLED",
        s := if maxHold ≤ cap then "within-limit;final=0" else "LIMIT-EXCEEDED",
        t := joinWith "," ((if opl.any (·.startsWith "C") then ["cancel"] else []) ++ (if obs.any (fun o => o.startsWith s!"{cap}/") then ["full"] else [])
            ++ (if opl.any (·.startsWith "F") then ["finish"] else [])) }
    | none => bad
  | _ => bad

/-- follows against the tail limiter: truncation (X) and waiting (W) are invisible to the limiter —
    a follow keeps its slot while its file is re-read -/
def opC13Tail : List String → Res
  | [cap, ops, maxs] => match cap.toNat?, ((maxs.splitOn ",").getD 0 "").toNat? with
    | some cap, some maxActive =>
      let opl := (ops.splitOn ",").filter (· ≠ "")
      let n := opl.length
      let (r, obs) := opl.foldl (fun (acc : C13Run × List String) op =>
          -- a cancelled follow returns whether it waits or holds (its reader watches the context)
          let r := if op.startsWith "X" ∨ op.startsWith "W" then acc.1
                   else if op.startsWith "C" then c13op (c13op acc.1 op) ("F" ++ (op.drop 1).toString)
                   else c13op acc.1 op
          (r, acc.2 ++ [s!"{r.st.tokens}/{c13returned r}"])) ({ st := limInit cap n }, [])
      { m := if r.ok then joinWith "," obs ++ ";final=0" else "MODEL-LABEL-NOT-ENABLED",
        -- the number of test files open at once (maxr) is reported but not judged: the follow's periodic
        -- truncation check opens its file by path a second time, also while the read itself is over
        -- judged instead: the number of follows that deliver a line appended at the same moment (maxActive)
        s := if maxActive ≤ cap then "final=0" else "LIMIT-EXCEEDED",
        t := joinWith "," ((if opl.any (·.startsWith "C") then ["cancel"] else []) ++ (if opl.any (·.startsWith "X") then ["truncate-retry"] else [])
            ++ (if obs.any (fun o => o.startsWith s!"{cap}/") then ["full"] else [])) }
    | _, _ => bad
  | _ => bad

/-- whole sessions sharing one limiter: at quiescence the limiter holds min(cap, reads of live sessions) tokens
    (`C13_full_holds`: tokens = #holding ≤ cap; `C13_progress`: a free slot and a waiting read do not coexist at
    quiescence), and a session that ends takes all its reads with it -/
def opC13Session : List String → Res
  | [cap, ops] => match cap.toNat? with
    | some cap =>
      let opl := (ops.splitOn ",").filter (· ≠ "")
      let step (acc : List (Nat × Nat) × List String) (op : String) : List (Nat × Nat) × List String :=
        let live := acc.1
        let live := if op.startsWith "N" then
            -- N<s>x<k>: k commands of one file each; N<s>g<k>: one command whose glob matches k files — k reads either way
            (match (((op.drop 1).toString.replace "g" "x").splitOn "x").map (·.toNat?.getD 0) with
             | [s, k] => live ++ [(s, k)]
             | _ => live)
          else if op.startsWith "K" then live.filter (·.1 ≠ ((op.drop 1).toString.toNat?.getD 0))
          else live
        let reads := live.foldl (fun n e => n + e.2) 0
        (live, acc.2 ++ [toString (min cap reads)])
      let (_, obs) := opl.foldl step ([], [])
      let r := joinWith "," obs ++ ";final=0"
      { m := r, s := r, t := joinWith "," ((if opl.any (fun o => o.startsWith "N" ∧ ¬ o.endsWith "x1") then ["multi-command"] else [])
          ++ (if opl.any (fun o => o.startsWith "N" ∧ o.contains 'g') then ["glob"] else [])
          ++ (if obs.any (· == toString cap) then ["full"] else []) ++ (if opl.any (·.startsWith "K") then ["session-end"] else [])) }
    | none => bad
  | _ => bad

/-- the server's own background jobs: their follows count against the server-wide limit (`C13_full_holds`: never
    more reads holding a slot than the limit) -/
def opC13Jobs : List String → Res
  | [limit, n, obs] => match limit.toNat?, n.toNat? with
    | some limit, some n =>
      let seen := ((obs.drop 4).toString.toNat?).getD 0
      let within := obs.startsWith "max=" ∧ seen ≤ limit
      { m := obs, s := if obs.startsWith "INCONCLUSIVE" then "-" else if within then obs else "LIMIT-EXCEEDED", t := if n > limit then "jobs-beyond-limit" else "jobs" }
    | _, _ => bad
  | _ => bad

/-! C14 -/

/-- script ops of the harness interpreted on the model; the client's connection index maps to
    the server's accept order -/
structure C14Run where
  st : ConnState
  idx : List (Nat × Nat) := []       -- client conn id ↦ index in st.conns
  handshaken : List Nat := []        -- client conn ids with an established SSH client
  gen : Gen.Conn.stats := {}         -- tie G: the translated counter of internal/server/stats.go, stepped beside the model
  genBad : Bool := false             -- the translated counter and the model's disagreed at some step

def c14lookup (r : C14Run) (i : Nat) : Option Nat := (r.idx.find? (·.1 == i)).map (·.2)

def c14step (r : C14Run) (l : CLabel) : C14Run := match connStep r.st l with
  | some s =>
    let ext : Go.Ext := { parseFloat := fun _ => (0, none), maxConnections := r.st.max }
    let g := match l with
      | .connect => (match Gen.Conn.stats.serverLimitExceeded ext r.gen with
          | (g, some _) => g
          | (g, none) => Gen.Conn.stats.incrementConnections ext g)
      | .handshakeFail _ | .close _ => Gen.Conn.stats.decrementConnections ext r.gen
      | _ => r.gen
    { r with st := s, gen := g, genBad := r.genBad || g.currentConnections != s.counter }
  | none => r

def c14op (r : C14Run) (op : String) : C14Run × Bool :=
  let i := ((op.drop 1).toString.toNat?).getD 0
  let connect (r : C14Run) : C14Run :=
    let r' := c14step r .connect
    { r' with idx := (i, r.st.conns.length) :: r.idx.filter (·.1 != i) }
  let phase (r : C14Run) : Option CPhase := (c14lookup r i).bind (fun k => r.st.conns[k]?)
  let hs (r : C14Run) (good : Bool) : C14Run × Bool :=
    match c14lookup r i, phase r with
    | some k, some .handshaking =>
      if good then ({ c14step r (.handshakeOk k) with handshaken := i :: r.handshaken }, true)
      else (c14step r (.handshakeFail k), false)
    | _, _ => (r, false)
  match op.toList.head? with
  | some 'T' => (connect r, true)
  | some 'A' => hs (connect r) true
  | some 'H' => if r.handshaken.contains i then (r, false) else hs r true
  | some 'B' => if r.handshaken.contains i then (r, false) else hs r false
  | some 'S' => match c14lookup r i, phase r with
    | some k, some .authenticated => (c14step r (.shell k), true)
    | _, _ => (r, false)
  -- Q / U: a flood of channel requests, then the client goes away: for the accounting a shell request (Q) and the end
  -- of the connection
  | some 'Q' | some 'U' => match c14lookup r i, phase r with
    | some k, some .authenticated =>
      let r := if op.startsWith "Q" then c14step r (.shell k) else r
      ({ c14step r (.close k) with handshaken := r.handshaken.filter (· != i) }, true)
    | _, _ => (r, false)
  | some 'X' => match c14lookup r i, phase r with
    | some k, some .authenticated => ({ c14step r (.close k) with handshaken := r.handshaken.filter (· != i) }, true)
    | some k, some .handshaking => (c14step r (.handshakeFail k), true)
    | _, _ => (r, true)
  | _ => (r, false)

def opC14Script : List String → Res
  | [max, ops] => match max.toNat? with
    | some max =>
      let opl := (ops.splitOn ",").filter (· ≠ "")
      let (r, obs) := opl.foldl (fun (acc : C14Run × List String) op =>
          -- W<ms>: time passes, nothing else (the server has no handshake deadline)
          let (r, ok) := if op.startsWith "W" then (acc.1, true) else c14op acc.1 op
          -- third field: the connections the server really holds (C14_full_holds: counter = #open)
          (r, acc.2 ++ [s!"{r.st.counter}/{boolStr ok}/{r.st.counter}"])) ({ st := connInit max }, [])
      let top : Int := obs.foldl (fun (m : Int) o => max' m (((o.splitOn "/").headD "0").toInt?.getD 0)) 0
      let low : Int := obs.foldl (fun (m : Int) o => let v : Int := ((o.splitOn "/").headD "0").toInt?.getD 0; if v < m then v else m) 0
      { m := if r.genBad then "TRANSLATED-COUNTER-DIFFERS-FROM-MODEL" else joinWith "," obs ++ ";final=0",
        s := (if top ≤ max ∧ low ≥ 0 then "bounded" else "OUT-OF-BOUNDS") ++ ";final=0",
        t := joinWith "," ((if r.st.conns.contains .refused then ["refused"] else []) ++ (if opl.any (·.startsWith "B") then ["badcred"] else [])
          ++ (if opl.any (·.startsWith "S") then ["shell"] else []) ++ (if opl.any (·.startsWith "T") then ["rawtcp"] else [])
          ++ (if opl.any (fun o => o.startsWith "Q" ∨ o.startsWith "U") then ["request-flood"] else [])
          ++ (if obs.any (·.startsWith s!"{max}/") then ["full"] else [])) }
    | none => bad
  | _ => bad
where max' (a b : Int) : Int := if a < b then b else a

/-! C06 -/

/-- c06.fifo <nfiles> <script>: readers' steps from the script, the aggregator settles after each -/
def opC06Fifo : List String → Res
  | [nf, script] => match nf.toNat? with
    | some nf =>
      let opl := (script.splitOn ",").filter (· ≠ "")
      let idx (o : String) : Nat := (o.drop 1).toString.toNat?.getD 0
      let sizes := (List.range nf).map fun i => (opl.filter (· == s!"P{i}")).length
      let fuel := 4 * (nf + sizes.foldl (· + ·) 0) + 16
      let step (acc : Option Agg × Nat) (o : String) : Option Agg × Nat :=
        match acc.1 with
        | none => acc
        | some st =>
          let lab : Option ALabel :=
            if o.startsWith "C" then some (.register (idx o))
            else if o.startsWith "P" then some (.push (idx o))
            else if o.startsWith "X" then some (.close (idx o))
            else none
          match lab with
          | none => (some st, acc.2)                    -- M: the map command creates the aggregator
          | some l => match aggStep st l with
            | none => (none, acc.2)
            | some st' => let r := aggSettle fuel st' []; (some r.1, acc.2 + (r.2.filter (· == .rotate)).length)
      match opl.foldl step (some (aggInit sizes), 0) with
      | (some st, steps) =>
        let render (counts : List Nat) : String :=
          let parts := (counts.zipIdx.filter (·.1 > 0)).map fun (c, i) => s!"{i}={c}"
          (if parts.isEmpty then "empty" else joinWith "," parts) ++ ";closed=true"
        let got := st.rds.map (·.consumed)
        let lost := (st.rds.zip sizes).any fun (d, n) => d.consumed ≠ n
        { m := render got, s := render sizes,
          g := if lost then "late-register" else "-",
          t := joinWith "," ((if nf > 1 then ["multi-file"] else []) ++ (if lost then ["lost"] else ["complete"])
            ++ (if steps > 0 then ["rotation"] else [])
            ++ (if sizes.any (· == 0) then ["empty-file"] else [])) }
      | (none, _) => { m := "script-rejected" }
    | none => bad
  | _ => bad

/-- c06.queue <nsmall> <slowlines>: one file that is still being read (registered first, open,
    empty) and `nsmall` one-line files; as many as fit register before the aggregator starts,
    the others wait for room in `NextLinesCh`; then the slow file delivers its lines and ends.
    The model runs the transition system under the eager schedule. -/
def opC06Queue : List String → Res
  | [ns, sl] => match ns.toNat?, sl.toNat? with
    | some ns, some sl =>
      let sizes := sl :: List.replicate ns 1
      let fuel := 8 * (ns + sl) + 64
      let run (st : Option Agg) (ls : List ALabel) : Option Agg := ls.foldl (fun a l => a.bind (aggStep · l)) st
      let settle (st : Option Agg) : Option Agg := st.map fun x => (aggSettle fuel x []).1
      let early := (List.range ns).map (· + 1) |>.take (nextCap - 1)
      let late := (List.range ns).map (· + 1) |>.drop (nextCap - 1)
      let st0 := run (some (aggInit sizes)) (ALabel.register 0 :: early.flatMap fun i => [.register i, .push i, .close i])
      let st1 := late.foldl (fun a i => settle (run (settle a) [.register i, .push i, .close i])) st0
      let st2 := settle (run (settle st1) (List.replicate sl (ALabel.push 0) ++ [.close 0]))
      match st2 with
      | some st =>
        let got := (st.rds.map (·.consumed)).foldl (· + ·) 0
        let total := sizes.foldl (· + ·) 0
        { m := (if st.done ∧ got = total then "terminated" else "stuck") ++ s!";count={got}",
          s := s!"terminated;count={total}",
          t := joinWith "," (["multi-file", "rotation"] ++ (if late.isEmpty then [] else ["queue-full"])) }
      | none => { m := "script-rejected", s := "-" }
    | _, _ => bad
  | _ => bad

/-- c06.merge <nservers> <steps>: the client's global group after every server's partials -/
def opC06Merge : List String → Res
  | [_, steps] =>
    let arr := ((steps.splitOn ",").filter (·.startsWith "A")).filterMap fun st =>
      match ((st.drop 1).toString).splitOn ":" with
      | [i, g, c] => match i.toNat?, c.toInt? with
        | some i, some c => some (g, i, (⟨some c, none⟩ : Col))
        | _, _ => none
      | _ => none
    let groups := ((arr.map (·.1)).eraseDups.toArray.qsort (· < ·)).toList
    let out := groups.map fun g =>
      let col := clientGlobal .count ((arr.filter (·.1 == g)).map (·.2))
      s!"{g}={col.num.getD 0}"
    let r := if out.isEmpty then "empty" else joinWith "," out
    { m := r, s := r,
      t := joinWith "," ((if steps.contains 'H' then ["held"] else []) ++ (if groups.length > 1 then ["multi-group"] else [])) }
  | _ => bad

/-! C07 -/

def padTo (n : Nat) (l : Bytes) : Bytes := l ++ List.replicate (n - l.length) 120

def opC07Multi : List String → Res
  | [ns, nf, nl, ll, mll] => match ns.toNat?, nf.toNat?, nl.toNat?, ll.toNat?, mll.toNat? with
    | some ns, some nf, some nl, some ll, some mll =>
      let sources := (List.range ns).flatMap fun i => (List.range nf).map fun f => (i, f)
      let render (i f : Nat) : String :=
        let name := str s!"f{f}.log"
        let content : Bytes := (List.range nl).flatMap fun k => padTo ll (str s!"src=f{f}.log n={k + 1} ") ++ [NL]
        let lines := catLines name (readLinesF mll content)
        -- each record's text is the line without its newline (the client prints line by line)
        let recs := lines.map fun l => s!"{l.count}:{l.perc}:{hexOf (chomp l.content)}"
        s!"host{i}|f{f}.log=" ++ joinWith "," recs
      let keyed := sources.map fun (i, f) => (s!"host{i}|f{f}.log", render i f)
      let sorted := (keyed.toArray.qsort (fun a b => a.1 < b.1)).toList
      let r := if sorted.isEmpty ∨ nl = 0 then "0;nothing" else "0;" ++ joinWith " " (sorted.map (·.2))
      { m := r, s := r,
        t := joinWith "," ((if ns > 1 then ["multi-server"] else []) ++ (if nf > 1 then ["multi-file"] else [])
          ++ (if ll > mll then ["split"] else []) ++ (if ll > 4096 then ["long"] else [])) }
    | _, _, _, _, _ => bad
  | _ => bad

/-- FNV-1a (32 bit) of a byte string -/
def fnv32 (bs : Bytes) : UInt32 := bs.foldl (fun h b => (h ^^^ b.toUInt32) * 16777619) 2166136261

def hex8 (n : UInt32) : String :=
  let ds := (Nat.toDigits 16 n.toNat)
  String.ofList (List.replicate (8 - ds.length) '0' ++ ds)

/-- split into lines, each keeping its newline (reverse accumulation, linear) -/
def splitKeepNL (bs : Bytes) : List Bytes :=
  let (cur, acc) := bs.foldl (fun (st : Bytes × List Bytes) b =>
    if b = NL then ([], (b :: st.1).reverse :: st.2) else (b :: st.1, st.2)) ([], [])
  (if cur = [] then acc else cur.reverse :: acc).reverse

def digestLines (out : Bytes) : String :=
  if out = [] then "nothing" else
  joinWith "," ((splitKeepNL out).map fun l => s!"{l.length}:{hex8 (fnv32 l)}")

/-- a chunk part: hex, or `R<len>x<hh>` (a run of one byte) -/
def parsePart (p : String) : Option Bytes :=
  if p.startsWith "R" then
    match (p.drop 1).toString.splitOn "x" with
    | [l, h] => do
      let l ← l.toNat?
      let b ← unhex h
      match b with
      | [x] => some (List.replicate l x)
      | _ => none
    | _ => none
  else unhex p

def parseChunk (c : String) : Option (Nat × Bytes) :=
  match c.splitOn ":" with
  | [i, parts] => do
    let i ← i.toNat?
    let ps ← (parts.splitOn ".").mapM parsePart
    pure (i, ps.flatten)
  | _ => none

/-- `c07.sched <nconn> <schedule>`: the multi-connection client model on a schedule of transport
    chunks.  The printed messages (in print order, hidden ones dropped) are rendered line by line.
    The specification value is the per-connection statement of `C07_interleave`: every connection's
    messages are those of its own byte stream alone — rendered in the same global print order, which
    the number of message terminators per chunk determines. -/
def opC07Sched : List String → Res
  | [n, sched] => match n.toNat?, (sched.splitOn ",").mapM parseChunk with
    | some n, some sc =>
      if sc.any (fun c => c.1 ≥ n) then bad else
      let out := multiRunF n sc
      let shown := (out.filter (fun m => !isHidden m.2)).map (·.2)
      -- specification: per connection, the messages of that connection's stream alone (`clientMsgsF`),
      -- taken in the order in which the chunks complete them
      let perConn : List (List Bytes) := (List.range n).map fun i => clientMsgsF (streamOf i sc)
      let specOut : List Bytes := Id.run do
        let mut rest := perConn.toArray
        let mut acc : Array Bytes := #[]
        for c in sc do
          let k := c.2.countP (fun b => b = NL ∨ b = DELIM)
          let mine := rest[c.1]!
          acc := acc ++ (mine.take k).toArray
          rest := rest.set! c.1 (mine.drop k)
        return acc.toList
      let specShown := specOut.filter (fun m => !isHidden m)
      let long := sc.any (fun c => c.2.length > 20000)
      { m := digestLines shown.flatten, s := digestLines specShown.flatten,
        t := joinWith "," ((if n > 1 then ["multi-conn"] else []) ++ (if long then ["long-chunk"] else [])
          ++ (if out.any (fun m => m.2.length > 65536) then ["msg>64k"] else [])
          ++ (if out.any (fun m => isHidden m.2) then ["hidden"] else [])) }
    | _, _ => bad
  | _ => bad

/-! C04 -/

def hexOfString (s : String) : String := hexOf (str s)

def opC04Perc : List String → Res
  | [n] => match n.toNat? with
    | some n =>
      let vals := (List.range (n + 1)).flatMap fun m => (List.range (m + 1)).map fun t => s!"{percentOf m t},"
      let r := (hexOfString (String.join vals)).replace "-" ""
      { m := r, s := r, t := "exhaustive" }
    | none => bad
  | _ => bad

structure Delivered where
  count : Nat
  perc : Nat
  content : Bytes

def parseDelivered (s : String) : Option (List Delivered) :=
  if s = "none" then some [] else
  (s.splitOn ",").mapM fun e => match e.splitOn ":" with
    | [c, p, h] => do
      let c ← c.toNat?
      let p ← p.toNat?
      let h ← unhex h
      pure ⟨c, p, h⟩
    | _ => none

/-- replay the observed deliveries on the model: every line of the appended content is
    processed in order; a matching line is delivered iff the implementation delivered it (the
    queue state is the nondeterministic choice); the model must then reproduce count, content
    and percentage of every delivered line -/
def c04replay (lines : List Bytes) (bits : List Bool) (obs : List Delivered) : Option (List Delivered) × Stats :=
  let rec go (k : Nat) (ls : List (Bytes × Bool)) (obs : List Delivered) (st : Stats) (acc : List Delivered) :
      Option (List Delivered) × Stats :=
    match ls with
    | [] => (if obs.isEmpty then some acc.reverse else none, st)
    | (l, b) :: rest =>
      let deliveredHere := match obs with | d :: _ => d.count == k | [] => false
      let (st', fate, cnt, perc) := processLine true st b (!deliveredHere)
      match fate with
      | .delivered => match obs with
        | _ :: more => go (k + 1) rest more st' (⟨cnt, perc, l⟩ :: acc)
        | [] => (none, st')
      | _ => if deliveredHere then (none, st') else go (k + 1) rest obs st' acc
  go 1 (lines.zip bits) obs statsInit []

def renderDelivered (l : List Delivered) : String :=
  if l.isEmpty then "none" else joinWith "," (l.map fun d => s!"{d.count}:{d.perc}:{hexOf d.content}")

def opC04Tail : List String → Res
  | [m, _cap, _re, _pre, steps, obs, bits] => match m.toNat?, parseDelivered obs with
    | some m, some obs =>
      let chunks := (steps.splitOn ",").filterMap fun st => if st.startsWith "W" then unhex (st.drop 1).toString else none
      let s := tailRead m chunks
      let lines := s.out
      let bitl := bitsOf bits
      if bitl.length ≠ lines.length then { m := s!"BITS-MISMATCH {bitl.length} {lines.length}" } else
      let stalled := (steps.splitOn ",").any (· == "S")
      let (acc, _) := c04replay lines bitl obs
      let all : List Delivered := ((lines.zip bitl).zipIdx 1).filterMap fun ((l, b), k) => if b then some ⟨k, 100, l⟩ else none
      let dropped := (all.filter fun d => !(obs.any (·.count == d.count))).length
      -- a delivered line right after a drop must report less than 100 (within the ring); the recorded
      -- finding: the drop is forgotten once `ringSize` further lines went by
      let recycled := obs.any fun d => d.perc == 100 ∧ all.any (fun x => x.count < d.count ∧ !(obs.any (·.count == x.count)))
      { m := match acc with | some l => renderDelivered l | none => "NOT-ACCEPTED-BY-MODEL",
        s := if !stalled then renderDelivered all
             else if recycled then "PERC-100-AFTER-DROP" else "-",
        g := if recycled then "perc-recycled" else "-",
        t := joinWith "," ((if dropped > 0 then ["drops"] else []) ++ (if chunks.length > 1 then ["chunked"] else [])
          ++ (if !s.msg.isEmpty then ["partial-held"] else []) ++ (if bitl.contains false then ["filter"] else [])
          ++ (if lines.any (fun l => l.length = m + 1) then ["split"] else [])) }
    | _, _ => bad
  | _ => bad

/-- the follow as the server runs it, with a forced re-open between appends (step `M`): every appended line once, in
    order — a re-open adds nothing and loses nothing, since nothing is appended while the file is away -/
def opC04Follow : List String → Res
  | [m, _pre, steps] => match m.toNat? with
    | some m =>
      let chunks := (steps.splitOn ",").filterMap fun st => if st.startsWith "W" then unhex (st.drop 1).toString else none
      let lines := (tailRead m chunks).out
      let r := if lines.isEmpty then "none" else joinWith "," (lines.map hexOf)
      { m := r, s := r, t := joinWith "," ((if (steps.splitOn ",").any (· == "M") then ["reopen"] else []) ++ (if chunks.length > 1 then ["chunked"] else [])) }
    | none => bad
  | _ => bad

/-! C02 -/

def parseSizes (s : String) : Option (List Nat) := (s.splitOn "+").mapM (·.toNat?)

/-- replay an observed session on the LTS with a lazy schedule: a line is queued right before it
    is delivered (always admissible: the observed order is the queue's order), a reader finishes
    when its last line is queued, the handshake needs `flushDone` to be enabled -/
def c02replay (sizes : List Nat) (events : List String) : Except String Sess :=
  let step (s : Sess) (l : SLabel) (what : String) : Except String Sess :=
    match sessStep s l with | some s' => .ok s' | none => .error s!"REJECTED at {what}"
  let finishIfThrough (s : Sess) (c : Nat) (what : String) : Except String Sess :=
    match s.cmds[c]?, s.sizes[c]? with
    | some (.reading k), some n => if k = n + 1 then step s (.finish c) what else .ok s
    | _, _ => .ok s
  events.foldlM (fun s ev =>
    if ev.startsWith "c" then do
      let c := ((ev.drop 1).toString.toNat?).getD 0
      let s ← step s (.recv c) ev
      finishIfThrough s c ev
    else if ev.startsWith "l" then
      match (ev.drop 1).toString.splitOn "." with
      | [cs, ks] =>
        let c := cs.toNat?.getD 0
        let k := ks.toNat?.getD 0
        if nextOf s c ≠ k then .error s!"REJECTED at {ev} (expected line {nextOf s c})" else do
        let s ← step s (.push c) ev
        let s ← step s .deliver ev
        finishIfThrough s c ev
      | _ => .error "bad event"
    else if ev = "syn" then do
      let s ← step s .flushDone ev
      step s .deliverSyn ev
    else .ok s) (sessInit sizes)

def opC02Session : List String → Res
  | [_limit, files, script, obs] => match parseSizes files with
    | some sizes =>
      let events := (obs.splitOn ",").filter (· ≠ "")
      let sent := events.filterMap fun e => if e.startsWith "c" then (e.drop 1).toString.toNat? else none
      let sawSyn := events.contains "syn"
      -- a script that ends with E reads until the close handshake (or 2.5 s of silence): the session
      -- of a client that keeps reading must end by itself
      let readsToEnd := (script.splitOn ",").getLast? == some "E" ∧ !sent.isEmpty
      let deliveredOf (c : Nat) := (events.filter (·.startsWith s!"l{c}.")).length
      let complete := sent.all fun c => deliveredOf c == sizes.getD c 0
      match c02replay sizes events with
      | .ok s =>
        { m := obs, s := if !sawSyn then (if readsToEnd then "SESSION-DID-NOT-CLOSE" else "-") else if complete then obs else "INCOMPLETE-AT-CLOSE",
          g := if s.lateRecv then "idle-between-commands" else "-",
          t := joinWith "," ((if sent.length > 1 then ["multi-command"] else []) ++ (if sawSyn then ["closed"] else [])
            ++ (if s.lateRecv then ["late-command"] else []) ++ (if sizes.any (· > 100) then ["queue-full"] else [])
            ++ (if events.contains "idle" then ["idle-seen"] else [])) }
      | .error e => { m := e, s := if !sawSyn then (if readsToEnd then "SESSION-DID-NOT-CLOSE" else "-") else if complete then obs else "INCOMPLETE-AT-CLOSE" }
    | none => bad
  | _ => bad

/-- c02.long: a single file some of whose lines are several KiB long arrives completely -/
def opC02Long : List String → Res
  | [files, _pad, _every, _obs] => match parseSizes files with
    | some sizes =>
      let want := "0;" ++ joinWith "&" (sizes.zipIdx.map fun (n, i) => s!"f{i}=" ++ (if n = 0 then "none" else s!"1..{n}"))
      { m := want, s := want, t := "long-lines" }
    | none => bad
  | _ => bad

def opC02E2E : List String → Res
  | [transport, files, _delay, _chunk, obs] => match parseSizes files with
    | some sizes =>
      let want := "0;" ++ joinWith "&" (sizes.zipIdx.map fun (n, i) => s!"f{i}=" ++ (if n = 0 then "none" else s!"1..{n}"))
      -- admissible: every file's lines are a prefix 1..k
      let parts := (obs.splitOn ";").getD 1 "" |>.splitOn "&"
      let adm := parts.all fun p => match p.splitOn "=" with
        | [_, v] => v = "none" ∨ v.startsWith "1.."
        | _ => false
      { m := if adm then obs else "INADMISSIBLE", s := want,
        g := if sizes.length > 1 ∧ adm ∧ obs ≠ want then "idle-between-commands" else "-",
        t := joinWith "," ([transport] ++ (if sizes.length > 1 then ["multi-file"] else ["single-file"])
          ++ (if sizes.any (· > 100) then ["queue-full"] else [])) }
    | none => bad
  | _ => bad

/-- many files in one session while the first reader is held back: nothing may be missing, and
    no recorded finding applies (the session cannot have gone idle before every command was sent) -/
def opC02Many : List String → Res
  | [transport, n, first, _hold, obs] => match n.toNat?, first.toNat? with
    | some n, some first =>
      let want := "0;" ++ joinWith "&" ((List.range n).map fun i => s!"f{i}=1.." ++ toString (if i = 0 then first else 3))
      { m := obs, s := want, t := joinWith "," [transport, "many-files"] }
    | _, _ => bad
  | _ => bad

/-- files the reader cannot start on, in the middle of a session whose first reader is held back: the files queued
    behind them arrive completely and the session ends by itself -/
def opC02Bad : List String → Res
  | [transport, _bad, n, first, _hold, obs] => match n.toNat?, first.toNat? with
    | some n, some first =>
      let want := "0;" ++ joinWith "&" ((List.range (n + 1)).map fun i => s!"f{i}=1.." ++ toString (if i = 0 then first else 3 + (i - 1)))
      { m := obs, s := want, t := joinWith "," [transport, "unreadable-files"] }
    | _, _ => bad
  | _ => bad

/-- several requests decoded in one process, evaluated afterwards: every request selects what its own
    pattern and polarity say (raw RE2 verdicts are supplied), whatever was decoded before or after it -/
def opC12Select : List String → Res
  | [_lines, reqs, raws] =>
    let rs := reqs.splitOn ";"
    let ws := raws.splitOn "|"
    let outs := (rs.zip ws).map fun (r, w) => match r.splitOn ":" with
      | [inv, ph] => (match unhex ph with
        | some pat =>
          if w = "E" then "E" else
          let noop := Facts.noopPatternsBytes.contains pat
          let bits := if w = "-" then "-" else String.ofList (w.toList.map fun c => if noop then '1' else if (c == '1') != (inv == "1") then '1' else '0')
          bits ++ "," ++ bits
        | none => "bad")
      | _ => "bad"
    let r := joinWith "|" outs
    { m := r, s := r, t := joinWith "," ((if rs.length > 1 then ["sequence"] else []) ++
        (if rs.any (fun r => rs.any fun r' => r ≠ r' ∧ (r.splitOn ":").getD 1 "" = (r'.splitOn ":").getD 1 "x") then ["same-pattern-other-flag"] else [])) }
  | _ => bad

/-- several readers into one server handler: every source's records are its lines 1..n, intact -/
def opC07Pipe : List String → Res
  | [_buf, srcs] =>
    let want := joinWith "&" ((srcs.splitOn ";").zipIdx.map fun (sp, i) => s!"{i}=1.." ++ ((sp.splitOn "x").getD 0 "0"))
    { m := want, s := want, t := joinWith "," ((if (srcs.splitOn ";").length > 1 then ["multi-source"] else [])
        ++ (if (srcs.splitOn ";").any (fun sp => (((sp.splitOn "x").getD 1 "0").toNat?.getD 0) > 32768) then ["long"] else [])) }
  | _ => bad

/-- c06.interim: an interim result in flight when the input ends: every line is in what the client gets -/
def opC06Interim : List String → Res
  | [g, e] => match g.toNat?, e.toNat? with
    | some g, some e =>
      let want := s!"lines={g + e};groups={g + e};closed=true"
      { m := want, s := want, t := joinWith "," (["interim-in-flight"] ++ (if g > 10 then ["more-than-queue"] else [])) }
    | _, _ => bad
  | _ => bad

/-- c07.grep: grep readers selecting every mod-th line: per source the last number delivered is the largest multiple of mod
    among its line numbers (every record carries the line's number in the file, which the harness checks against its content) -/
def opC07Grep : List String → Res
  | [_buf, srcs, mod] => match mod.toNat? with
    | some mod =>
      let want := joinWith "&" ((srcs.splitOn ";").zipIdx.map fun (sp, i) =>
        let n := ((sp.splitOn "x").getD 0 "0").toNat?.getD 0
        s!"{i}=1..{if mod = 0 then n else n / mod * mod}")
      { m := want, s := want, t := joinWith "," (["grep"] ++ (if (srcs.splitOn ";").length > 1 then ["multi-source"] else [])) }
    | none => bad
  | _ => bad

/-! tie G: the translated Go functions run on the same scripts as the real ones -/

def genExt : Go.Ext where
  parseFloat v := match atoi v with | some n => (n, none) | none => (0, some (str "strconv.ParseFloat: parsing: invalid syntax"))
  reMatch _ raw := containsSub raw (str "hit")
  percentOf m t := (percentOf m.toNat t.toNat : Nat)

def genBits (l : List Bool) : String := String.ofList (l.map fun b => if b then '1' else '0')

def opGenStats : List String → Res
  | [script] =>
    let step (acc : Gen.Fs.readFile × List String) (op : String) : Gen.Fs.readFile × List String :=
      let (f, out) := acc
      match op.toList.head? with
      | some 'p' => ({ f with stats := Gen.Fs.stats.updatePosition genExt f.stats }, out)
      | some 'm' => ({ f with stats := Gen.Fs.stats.updateLineMatched genExt f.stats }, out)
      | some 'n' => ({ f with stats := Gen.Fs.stats.updateLineNotMatched genExt f.stats }, out)
      | some 't' => ({ f with stats := Gen.Fs.stats.updateLineTransmitted genExt f.stats }, out)
      | some 'u' => ({ f with stats := Gen.Fs.stats.updateLineNotTransmitted genExt f.stats }, out)
      | some 'x' =>
        (match ((op.drop 1).toString.splitOn ",").map (·.toNat?.getD 0) with
        | [mt, len, cap, skip] =>
          let f := { f with canSkipLines := skip == 1 }
          let raw := if mt == 1 then str "a hit\n" else str "miss\n"
          let (f, l, ok) := Gen.Fs.readFile.transmittable genExt f raw len cap {}
          let o := match l, ok with
            | .new c n p sid, true => s!"T{n}/{p}/{String.fromUTF8! (ByteArray.mk sid.toArray)}/{(String.fromUTF8! (ByteArray.mk c.toArray)).trimAscii}"
            | _, _ => "F"
          (f, out ++ [o])
        | _ => (f, out ++ ["bad"]))
      | _ => (f, out)
    let (f, out) := ((script.splitOn ";").filter (· ≠ "")).foldl step (({ globID := str "gid" } : Gen.Fs.readFile), [])
    let r := joinWith "," out ++ s!";pos={f.stats.pos};lines={f.stats.lineCount};mc={f.stats.matchCount};tc={f.stats.transmitCount};m={genBits f.stats.matched};t={genBits f.stats.transmitted}"
    { m := r, s := "-", t := joinWith "," ((if out.any (·.startsWith "T") then ["delivered"] else []) ++ (if out.contains "F" then ["not-delivered"] else [])) }
  | _ => bad

def genApply (s : Gen.Mapr.AggregateSet) (ops : String) : Gen.Mapr.AggregateSet × String :=
  if ops = "-" then (s, "-") else
  (ops.splitOn "/").foldl (fun (acc : Gen.Mapr.AggregateSet × String) op =>
    match op.splitOn "," with
    | [k, code, v, cl] => (match unhex k, code.toInt?, unhex v with
      | some k, some code, some v =>
        let (s', err) := Gen.Mapr.AggregateSet.Aggregate genExt acc.1 k code v (cl == "1")
        (s', acc.2 ++ (if err.isSome then "1" else "0"))
      | _, _, _ => (acc.1, acc.2 ++ "?"))
    | _ => (acc.1, acc.2 ++ "?")) (s, "")

def opGenAgg : List String → Res
  | [xo, yo, qh] => match unhex qh with
    | some qs => (match newQuery intOracle qs with
      | .ok (some q) =>
        let (x, ex) := genApply {} xo
        let (y, ey) := genApply {} yo
        let (x, merr) := Gen.Mapr.AggregateSet.Merge genExt x ⟨q.sel.map GenAgg.genSel⟩ y
        let fd := joinWith "," (x.FValues.entries.map fun (k, v) => s!"{hexOf k}={v}")
        let sd := joinWith "," (x.SValues.entries.map fun (k, v) => s!"{hexOf k}={hexOf v}")
        { m := s!"errs={ex}|{ey};merge={if merr.isSome then "1" else "0"};S={x.Samples};F={fd};V={sd}", s := "-",
          t := joinWith "," ((if ex.contains '1' ∨ ey.contains '1' then ["parse-error"] else []) ++ (if yo ≠ "-" then ["merge"] else [])) }
      | _ => { m := "query-error" })
    | none => bad
  | _ => bad

/-- file identifiers of a session over one glob: the model's makeGlobID for every matched path (the cleaned glob
    and the matches are Go's), and the attribution oracle: different files, different identifiers -/
def opC07GlobID : List String → Res
  | [_spelling, oracle] => match oracle.splitOn ";" with
    | [gh, phs] => (match unhex gh with
      | some glob =>
        let paths := ((phs.splitOn ",").filter (· ≠ "")).filterMap unhex
        -- the hand model and the translated function (tie G) must agree; the harness compares both with the real session
        let ids := paths.map fun p => (p, match makeGlobID p glob with
          | .ok id => if (Gen.Handlers.readCommand.makeGlobID genExt {} p glob).2 = id then hexOf id else "TRANSLATED-DIFFERS"
          | .err e => "ERR " ++ e | .panic w => "PANIC " ++ w)
        let m := if ids.isEmpty then "-" else joinWith "|" (ids.map fun (p, id) => hexOf p ++ "=" ++ id)
        let distinct := (ids.map (·.2)).eraseDups.length = ids.length
        let parts := splitOnByte SLASH glob
        let starless := parts.any fun g => (g.contains 63 ∨ g.contains 91) ∧ !g.contains STAR
        { m := m, s := if distinct then m else "AMBIGUOUS-IDENTIFIERS",
          t := joinWith "," ((if ids.length > 1 then ["multi-file"] else []) ++ (if parts.any (·.contains STAR) then ["star"] else [])
            ++ (if starless then ["starless-wildcard"] else [])) }
      | none => bad)
    | _ => bad
  | _ => bad

/-- the final report against the periodic reporter on the same outfile: the outfile is the complete final result
    (the theorems of C15 are about one writer; that the two writers of the client exclude each other is what this
    op observes) -/
def opC15Race : List String → Res
  | [_n, _r] => { m := "complete", s := "complete", t := "two-writers" }
  | _ => bad

/-- the translated regex package with Go's regexp as the external engine (compile verdict and per-line answers supplied) -/
def opGenRegex : List String → Res
  | [mode, inv, th, lhs, oracle] => match unhex th, oracle.splitOn ";" with
    | some text, [okS, raw] =>
      let lines := (lhs.splitOn ",").filterMap unhex
      let table := lines.zip (raw.toList.map (· == '1'))
      let ext : Go.Ext := { genExt with
        reCompile := fun s => if okS = "1" then (⟨s, true⟩, none) else (⟨s, false⟩, some (str "error parsing regexp")),
        reMatchRaw := fun _ l => ((table.find? (·.1 == l)).map (·.2)).getD false }
      let bits (r : Gen.Regex.Regex) : String := String.ofList (lines.map fun l => if Gen.Regex.Regex.Match ext r l then '1' else '0')
      if mode = "new" then
        let (cl, e1) := Gen.Regex.New ext text (if inv = "1" then Gen.Regex.Invert else Gen.Regex.Default)
        if e1.isSome then { m := "new-error" } else
        let (ser, e2) := Gen.Regex.Regex.Serialize ext cl
        if e2.isSome then { m := "serialize-error" } else
        let (sv, e3) := Gen.Regex.Deserialize ext ser
        if e3.isSome then { m := "deserialize-error" } else
        { m := s!"{hexOf ser};{bits cl};{bits sv}", s := "-", t := "new" }
      else
        let (sv, e) := Gen.Regex.Deserialize ext text
        if e.isSome then { m := "deserialize-error", t := "wire-error" } else { m := bits sv, s := "-", t := "wire" }
    | _, _ => bad
  | _ => bad

/-- the result table of a mapreduce client, with and without colours: rendered, and identical up to the escape sequences -/
def opC16Table : List String → Res
  | [_q, _g] => { m := "ok", s := "ok", t := "table" }
  | _ => bad

/-- a re-connecting client: every attempt, first round and re-connects, goes to a listed address and to nothing else -/
def opC18Reconnect : List String → Res
  | [_n] => { m := "listed=twice;unlisted=0", s := "listed=twice;unlisted=0", t := "reconnect" }
  | _ => bad

/-- a consumer that stalls exactly at the end of the file, for longer than any timeout: all lines, exit status 0 -/
def opC02EofStall : List String → Res
  | [_lb, _extra, _hold, obs] =>
    let want := match obs.splitOn "/" with
      | [_, n] => s!"0;lines={n}/{n}"
      | _ => "0;lines=?"
    { m := want, s := want, t := "stall-at-eof" }
  | _ => bad

/-- the client's reporting path: the final outfile accounts for every partial result of every server -/
def opC06Report : List String → Res
  | [_s, _m, _r] => { m := "complete", s := "complete", t := "reporting" }
  | _ => bad

/-- the stdout logger paused and resumed while several sources print: every source's records 1..n, whole, in order -/
def opC07Pause : List String → Res
  | [ns, n, _c] =>
    let want := joinWith "&" ((List.range (ns.toNat?.getD 0)).map fun i => s!"{i}=1..{n}")
    { m := want, s := want, t := "pause-resume" }
  | _ => bad

def dispatch (line : String) : Res :=
  match (line.splitOn " ").filter (· ≠ "") with
  | "gen.stats" :: a => opGenStats a
  | "gen.agg" :: a => opGenAgg a
  | "gen.regex" :: a => opGenRegex a
  | "c01.reader" :: a => opC01Reader a
  | "c01.pipe" :: a => opC01Pipe a
  | "c01.e2e" :: a => opC01E2E a
  | "c03.grep" :: a => opC03Grep a
  | "c03.e2e" :: a => opC03E2E a
  | "c02.session" :: a => opC02Session a
  | "c02.e2e" :: a => opC02E2E a
  | "c02.long" :: a => opC02Long a
  | "c02.many" :: a => opC02Many a
  | "c02.bad" :: a => opC02Bad a
  | "c02.eofstall" :: a => opC02EofStall a
  | "c04.perc" :: a => opC04Perc a
  | "c04.tail" :: a => opC04Tail a
  | "c04.follow" :: a => opC04Follow a
  | "c05.agg" :: a => opC05Agg a
  | "c06.report" :: a => opC06Report a
  | "c06.fifo" :: a => opC06Fifo a
  | "c06.merge" :: a => opC06Merge a
  | "c06.queue" :: a => opC06Queue a
  | "c07.multi" :: a => opC07Multi a
  | "c07.sched" :: a => opC07Sched a
  | "c07.pipe" :: a => opC07Pipe a
  | "c07.grep" :: a => opC07Grep a
  | "c06.interim" :: a => opC06Interim a
  | "c07.globid" :: a => opC07GlobID a
  | "c07.pause" :: a => opC07Pause a
  | "c08.perm" :: a => opC08Perm a
  | "c08.cat" :: a => opC08Cat a
  | "c09.keys" :: a => opC09Keys a
  | "c09.callback" :: a => opC09Callback a
  | "c09.password" :: a => opC09Password a
  | "c09.pwseq" :: a => opC09PwSeq a
  | "c09.health" :: a => opC09Health a
  | "c10.decode" :: a => opC10Decode a
  | "c10.run" :: a => opC10Run a
  | "c10.query" :: a => opC10Query a
  | "c12.roundtrip" :: a => opC12Roundtrip a
  | "c12.select" :: a => opC12Select a
  | "c11.parse" :: a => opC11Parse a
  | "c13.script" :: a => opC13Script a
  | "c13.tail" :: a => opC13Tail a
  | "c13.session" :: a => opC13Session a
  | "c13.jobs" :: a => opC13Jobs a
  | "c14.script" :: a => opC14Script a
  | "c15.write" :: a => opC15Write a
  | "c15.seq" :: a => opC15Seq a
  | "c15.race" :: a => opC15Race a
  | "c16.colorfy" :: a => opC16Colorfy a
  | "c16.race" :: _ => { m := "same", s := "same", t := "concurrent-servers" }
  | "c16.write" :: a => opC16Write a
  | "c16.table" :: a => opC16Table a
  | "c17.trust" :: a => opC17Trust a
  | "c17.wrap" :: a => opC17Wrap a
  | "c17.client" :: a => opC17Client a
  | "c18.list" :: a => opC18List a
  | "c18.file" :: a => opC18File a
  | "c18.filter" :: a => opC18Filter a
  | "c18.reconnect" :: a => opC18Reconnect a
  | _ => bad

partial def loop (h : IO.FS.Stream) (out : IO.FS.Stream) : IO Unit := do
  let line ← h.getLine
  if line.isEmpty then return ()
  let l := (line.dropEndWhile (· == '\n')).toString
  if l ≠ "" then out.putStrLn (dispatch l).render
  loop h out

def main : IO Unit := do
  let out ← IO.getStdout
  loop (← IO.getStdin) out
  out.flush
