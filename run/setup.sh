#!/bin/bash
# Build the framework from files on disk only (offline).
set -e
cd "$(dirname "$0")/.."
V=$PWD
REPO=${VERIF_REPO:-/repo}
export GOFLAGS=-mod=mod GOPROXY=off GOSUMDB=off GOTOOLCHAIN=local
mkdir -p build evidence
(cd extract && go build -o ../build/extract .)
./build/extract "$REPO" > lean/DtailModel/Generated/Facts.lean.new && mv lean/DtailModel/Generated/Facts.lean.new lean/DtailModel/Generated/Facts.lean
./build/extract "$REPO" code > lean/DtailModel/Generated/Code.lean.new && mv lean/DtailModel/Generated/Code.lean.new lean/DtailModel/Generated/Code.lean
(cd lean && lake build DtailModel dtmodel)
(cd "$REPO" && go build -o "$V/build/bin/" ./cmd/...)
echo setup-ok
