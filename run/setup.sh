#!/bin/bash
# Build the framework from files on disk only (offline).
set -e
cd "$(dirname "$0")/.."
export GOFLAGS=-mod=mod GOPROXY=off GOSUMDB=off GOTOOLCHAIN=local
mkdir -p build evidence
(cd extract && go build -o ../build/extract .)
./build/extract /repo > lean/DtailModel/Generated/Facts.lean.new && mv lean/DtailModel/Generated/Facts.lean.new lean/DtailModel/Generated/Facts.lean
(cd lean && lake build DtailModel dtmodel)
(cd /repo && go build -o /verif/build/bin/ ./cmd/...)
echo setup-ok
