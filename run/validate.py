#!/usr/bin/env python3
import json, sys, os, glob
import jsonschema
V = os.path.dirname(os.path.dirname(os.path.abspath(__file__)))
jsonschema.validate(json.load(open(f'{V}/MANIFEST.json')), json.load(open('/root/.vp/MANIFEST.schema.json')))
es = json.load(open('/root/.vp/EVIDENCE.schema.json'))
for f in sorted(glob.glob(f'{V}/evidence/C*.json')):
    jsonschema.validate(json.load(open(f)), es)
    print('ok', os.path.basename(f))
print('valid')
