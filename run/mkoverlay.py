#!/usr/bin/env python3
"""Write build/overlay-<prop>.json mapping NEW paths inside /repo to files under
/verif/harness (common + the property's own directories)."""
import json, os, sys
V = os.path.dirname(os.path.dirname(os.path.abspath(__file__)))
REPO = os.environ.get("VERIF_REPO", "/repo")
EXPORT_PKG = {
    "server_handlers.go": "internal/server/handlers",
    "client_handlers.go": "internal/clients/handlers",
    "fs.go": "internal/io/fs",
    "mapr.go": "internal/mapr",
    "mapr_server.go": "internal/mapr/server",
    "mapr_client.go": "internal/mapr/client",
    "sshserver.go": "internal/ssh/server",
    "sshclient.go": "internal/ssh/client",
    "server.go": "internal/server",
    "clients.go": "internal/clients",
    "discovery.go": "internal/discovery",
    "userserver.go": "internal/user/server",
    "brush.go": "internal/color/brush",
    "connectors.go": "internal/clients/connectors",
    "config.go": "internal/config",
}
def make(prop, groups):
    rep = {}
    for g in ["common"] + list(groups):
        d = f"{V}/harness/{g}/cmd"
        if os.path.isdir(d):
            for f in sorted(os.listdir(d)):
                if f.endswith(".go"):
                    rep[f"{REPO}/cmd/verifharness/{f}"] = f"{d}/{f}"
        d = f"{V}/harness/{g}/export"
        if os.path.isdir(d):
            for f in sorted(os.listdir(d)):
                if f.endswith(".go"):
                    rep[f"{REPO}/{EXPORT_PKG[f]}/zz_verif_{g.lower()}.go"] = f"{d}/{f}"
    os.makedirs(f"{V}/build", exist_ok=True)
    path = f"{V}/build/overlay-{prop}.json"
    json.dump({"Replace": rep}, open(path, "w"), indent=1)
    return path
if __name__ == "__main__":
    print(make(sys.argv[1], sys.argv[2:] or [sys.argv[1]]))
