#!/usr/bin/env python3
"""check.py <Cxx> [--tier quick|thorough] [--replay <file>]

Exit 0: the property held on everything explored (KNOWN-FINDING lines may be printed).
Exit 1: `VIOLATION property=<id> replay=<path>[ no-failing-input-found]`.
"""
import argparse, importlib, json, os, sys
sys.path.insert(0, os.path.dirname(os.path.abspath(__file__)))
import lib


def standard_run(ck, P, replay_cases=None):
    """the common shape of a differential (D) check"""
    ck.gen_units = tuple(getattr(P, "GEN_UNITS", ()))
    ck.step_facts()
    props_ok, drv_ok = ck.step_lean([P.MODULE])
    if props_ok:
        ck.step_audit(P.MODULE)
    exe = ck.step_harness(P.GROUPS, bins=getattr(P, "BINS", False))
    samples = []
    if exe and drv_ok:
        broken = bool(ck.failures)
        if replay_cases is not None:
            cases = replay_cases
        else:
            budget = P.BUDGET[ck.tier] * (4 if broken else 1)   # widen the search when a tie broke
            cases = lib.load_corpus(ck.prop) + list(P.gen(ck.rng, budget, ck.tier))
        def run_cases(cases):
            nonlocal impl, model
            for batch in P.batches(cases) if hasattr(P, "batches") else [cases]:
                if not batch:
                    continue
                logger = getattr(P, "LOGGER", "stdout")
                if isinstance(logger, dict):      # per operation (the batches are split by operation then)
                    logger = logger.get(batch[0].split(" ", 1)[0], "stdout")
                impl = ck.run_impl(exe, batch, logger=logger,
                                   jobs=getattr(P, "JOBS", None), env_extra=getattr(P, "ENV", None))
                if hasattr(P, "model_case"):
                    # two-round protocol: oracle answers computed by the real code (e.g. Go's regexp on
                    # exactly the strings the model asks about) are passed to the model as inputs
                    mcases = [P.model_case(c, i) for c, i in zip(batch, impl)]
                    impl = [P.impl_view(c, i) for c, i in zip(batch, impl)]
                    skip = [k for k, mc in enumerate(mcases) if mc is None]
                    ck.coverage["skipped_by_impl"] = ck.coverage.get("skipped_by_impl", 0) + len(skip)
                    keep = [k for k in range(len(batch)) if mcases[k] is not None]
                    batch, impl, mcases = [batch[k] for k in keep], [impl[k] for k in keep], [mcases[k] for k in keep]
                else:
                    mcases = batch
                if not batch:
                    continue
                model = ck.run_model(mcases)
                nv, nf = len(ck.violations), len(ck.failures)
                ck.compare(batch, impl, model, proj=getattr(P, "PROJ", None), canon=getattr(P, "CANON", None))
                retry_flaky(logger, nv, nf)
                for c, i in list(zip(batch, impl))[:3]:
                    samples.append({"case": c[:400], "impl": i[:400]})

        def retry_flaky(logger, nv, nf):
            """Flake policy for scripts that contain real waits (DESIGN 2.3): a disagreement of a timed script counts if
            it shows again in any of four re-runs of the script alone (a race in the code reproduces sometimes, with or
            without load); a disagreement that never shows again without the load of the batch makes the script inconclusive."""
            timed = getattr(P, "TIMED_OPS", ())
            if not timed:
                return
            new_v, new_f = ck.violations[nv:], ck.failures[nf:]
            suspects = []
            for v in new_v:
                if v["case"].split(" ", 1)[0] in timed:
                    suspects.append(v["case"])
            for f in new_f:
                if f.case and f.case.split(" ", 1)[0] in timed:
                    suspects.append(f.case)
            cleared = set()
            suspects = list(dict.fromkeys(suspects))
            if len(suspects) > 6:
                # many timed scripts disagree at once: that is not a flake, keep them all (and do not spend minutes re-running)
                ck.notes.append(f"{len(suspects)} timed scripts disagree: not re-run")
                return
            for c in suspects:
                reproduced = False
                for _ in range(4):
                    i1 = ck.run_impl(exe, [c], logger=logger, jobs=1, env_extra=getattr(P, "ENV", None))
                    if hasattr(P, "model_case"):
                        mc = P.model_case(c, i1[0])
                        i1 = [P.impl_view(c, i1[0])]
                        if mc is None:
                            continue
                    else:
                        mc = c
                    m1 = ck.run_model([mc])
                    sv, sf, scov = ck.violations, ck.failures, dict(ck.coverage)
                    ck.violations, ck.failures = [], []
                    ck.compare([c], i1, m1, proj=getattr(P, "PROJ", None), canon=getattr(P, "CANON", None))
                    bad = bool(ck.violations or ck.failures)
                    ck.violations, ck.failures, ck.coverage = sv, sf, scov
                    if bad:
                        reproduced = True       # seen again without the load of the batch: not a flake of the harness
                        break
                if not reproduced:
                    cleared.add(c)
                    ck.notes.append("timed script inconclusive (a disagreement did not reproduce when re-run alone): " + c[:200])
            if cleared:
                ck.violations[nv:] = [v for v in new_v if v["case"] not in cleared]
                ck.failures[nf:] = [f for f in new_f if f.case not in cleared]
                ck.coverage["inconclusive_timed_scripts"] = ck.coverage.get("inconclusive_timed_scripts", 0) + len(cleared)

        impl, model = [], []
        run_cases(cases)
        if replay_cases is None and ck.failures and not ck.violations and hasattr(P, "targeted"):
            # a tie broke without a property-violating input: let the property derive cases from the ones that broke
            # (e.g. C15: every kill point of the syscall sequence that no longer matches the model)
            extra = list(P.targeted([f.case for f in ck.failures if f.case]))
            if extra:
                ck.notes.append(f"correspondence broken without a property-violating input: {len(extra)} targeted cases derived from the broken ones")
                run_cases(extra)
        if replay_cases is None and ck.failures and not ck.violations:
            # a tie broke and no input is known yet on which the property fails: search more widely
            # (fresh seed, four times the budget) before reporting no-failing-input-found
            import random
            ck.notes.append("correspondence broken without a property-violating input: widened search (4x budget, fresh seed)")
            run_cases(list(P.gen(random.Random(ck.seed + 7919), P.BUDGET[ck.tier] * 4, ck.tier)))
        # recorded findings that are identified by a witness input rather than a signature of the model
        if replay_cases is None:
            for k in ck.known:
                if "witness_case" not in k:
                    continue
                wlogger = getattr(P, "LOGGER", "stdout")
                if isinstance(wlogger, dict):
                    wlogger = wlogger.get(k["witness_case"].split(" ", 1)[0], "stdout")
                got = ck.run_impl(exe, [k["witness_case"]], logger=wlogger, jobs=1,
                                  env_extra=getattr(P, "ENV", None))[0]
                if hasattr(P, "impl_view"):
                    got = P.impl_view(k["witness_case"], got)
                wop = k["witness_case"].split(" ", 1)[0]
                if wop in (getattr(P, "CANON", None) or {}):
                    got = P.CANON[wop](got)
                if k.get("witness_projected") and wop in (getattr(P, "PROJ", None) or {}):
                    got = P.PROJ[wop](got)
                if got == k["witness_impl"]:
                    ck.known_hits.setdefault(k["id"], k["witness_case"])
                elif got == k.get("witness_spec"):
                    ck.notes.append(f"finding {k['id']} no longer reproduces (the witness now yields the specified result)")
                elif k.get("witness_timing_dependent"):
                    ck.notes.append(f"witness of {k['id']} inconclusive on this run (timing dependent script): {got[:200]}")
                else:
                    ck.violations.append({"case": k["witness_case"], "impl": got, "model": "-", "spec": k.get("witness_spec", "-"),
                                          "signature": k["id"], "why": "the witness of a recorded finding now behaves in a third way"})
        if replay_cases is not None:
            for c, i, m in zip(cases, impl, model):
                print(f"case: {c[:500]}\n  impl : {i[:500]}\n  model: {m[0][:500]}\n  spec : {m[1][:500]}\n  sig  : {m[2]}")
    return ck.finish(P.LEVEL_TEXT, P.TRUSTED, P.ASSUMPTIONS, P.RULE, samples)


def main():
    ap = argparse.ArgumentParser()
    ap.add_argument("prop")
    ap.add_argument("--tier", default=os.environ.get("VERIF_TIER", "quick"))
    ap.add_argument("--replay")
    a = ap.parse_args()
    seed = int(os.environ.get("VERIF_SEED", "1") or 1)
    P = importlib.import_module("props." + a.prop.lower())
    ck = lib.Check(a.prop, a.tier if a.tier in ("quick", "thorough") else "quick", seed)
    replay_cases = None
    if a.replay:
        body = json.load(open(a.replay))
        replay_cases = []
        for v in [body.get("failing_input")] + body.get("more_failing_inputs", []):
            if v and v.get("case"):
                replay_cases.append(v["case"])
        for b in body.get("broken", []):
            if b.get("case"):
                replay_cases.append(b["case"])
        if not replay_cases:
            print("replay file names no concrete input; broken obligations:")
            for b in body.get("broken", []):
                print(" -", b["kind"], b["what"])
            replay_cases = None
    if hasattr(P, "run"):
        rc = P.run(ck, replay_cases)
    else:
        rc = standard_run(ck, P, replay_cases)
    sys.exit(rc)


if __name__ == "__main__":
    main()
