#!/usr/bin/env python3
"""seedkeep.py <Cxx> <name> <seed dir> <caught_by text> : store a confirmed seeded change under /verif/seeded/<name>/"""
import json, os, shutil, sys
prop, name, src, caught = sys.argv[1:5]
dst = f"/verif/seeded/{name}"
os.makedirs(dst, exist_ok=True)
for f in os.listdir(src):
    if f != "meta.json" and f != "result.log" and os.path.isfile(os.path.join(src, f)):
        shutil.copy(os.path.join(src, f), dst)
m = json.load(open(os.path.join(src, "meta.json")))
meta = {"id": name, "breaks_property": prop,
        "summary": m.get("summary", ""),
        "needs_to_manifest": m.get("needs_to_manifest", ""),
        "demonstration": m.get("demonstration", ""),
        "why_tests_still_pass": m.get("why_tests_still_pass", ""),
        "confirmed": "by run/seedconfirm.sh in the scratch worktree: go build ./... ok, go test -vet=off -count=1 ./... ok with the change, "
                     "demonstration FAILS with the change and PASSES without it (git apply -R)",
        "ran": f"run/seedtest.sh {prop} seeded/{name}/patch.diff (git -C /repo apply; python3 run/check.py {prop} --tier quick; git -C /repo checkout -- .)",
        "caught_by": caught,
        "origin": "written by a fresh sub-agent that saw only the property text and its own scratch worktree, nothing from /verif"}
json.dump(meta, open(os.path.join(dst, "meta.json"), "w"), indent=1)
print("kept", dst)
