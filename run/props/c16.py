"""C16 — no message content can crash the client; colouring never alters text."""
from lib import hexs

MODULE = "DtailModel.Props.C16"
# translated packages (tie G) this property's theorems rest on
GEN_UNITS = ("Brush",)
GROUPS = ["C16", "C15"]
ENV = {"VERIF_LOGLEVEL": "none"}   # the handlers' own error logging is not part of the observation
BUDGET = {"quick": 5000, "thorough": 120000}
LEVEL_TEXT = ("Lean theorems for every message and every colour table: C16_lossless (rendering minus escape codes = "
              "message), C16_colorfy_no_panic (Go's slice indexing made explicit never goes out of range), "
              "C16_mapr_first_no_panic; tied to the code by the regenerated default colour table and a differential "
              "run of the real brush.Colorfy and the three client handlers' Write; c16.table: the result table a mapreduce client prints (GroupSet.Result) with non-ASCII, wide, long, empty and hostile values, colours off and on; tie G (panic-aware): C16_generated_colorfy_lossless — Colorfy / paintRemote / paintClient / paintServer / paintSeverity / paintDefault of internal/color/brush/brush.go as translated from the working tree never index out of range and never alter text, for every line and every way of painting whose paint can be removed again (Lemmas/GenBrush.lean); c16.colorfy evaluates the translated Colorfy beside the model")
TRUSTED = ["Lean 4 kernel", "axioms: propext, Quot.sound, Classical.choice (at most)", "fact extractor (colour constants, default colour table)",
           "overlay harness + dtmodel driver + this diff",
           "escape codes are removed at the level of rendered segments in the theorem; that a byte-level SGR stripper agrees is checked "
           "only differentially (Go regexp on the real output), resting on: no SGR sequence contains '|' or a newline",
           "modelled not verified: strings.SplitN/HasPrefix/TrimSuffix, fmt.Print"]
ASSUMPTIONS = ["colour codes in the configuration are SGR escape sequences"]
RULE = ("seeded messages: REMOTE/CLIENT/SERVER/AGGREGATE records with 0..8 fields, hidden '.' messages, empty messages, "
        "severity prefixes, trailing newlines, arbitrary bytes incl. ESC and partial escape sequences; ops c16.colorfy and "
        "c16.write (base/mapr/health handler, colours on/off, several chunk sizes); non-trivial = a record/hidden/escape/severity tag")

WORDS = [b"", b"x", b"host", b"100", b" 99", b"1", b"42", b"id", b"ERROR boom", b"WARN w", b"FATAL f", b"INFO ok", b"OK",
         b"a b", b"\x1b[31mred\x1b[0m", b"\x1b", b"\x1b[3", b"1m", b"m", b"[0m", b"caf\xc3\xa9", b"\xff\xfe", b"tab\there", b"|", b"x\n"]


def message(rng):
    r = rng.random()
    if r < 0.6:
        kind = rng.choice([b"REMOTE", b"CLIENT", b"SERVER", b"AGGREGATE", b"REMOTEX", b"remote"])
        n = rng.choice([0, 1, 2, 3, 4, 5, 5, 6, 8])
        m = b"|".join([kind] + [rng.choice(WORDS) for _ in range(n)])
    elif r < 0.7:
        m = rng.choice([b".syn close connection", b".ack", b".", b".x|y"])
    elif r < 0.75:
        m = b""
    else:
        m = bytes(rng.choice([rng.randrange(256), rng.choice(b"|.\x1b[m;0A\n")]) for _ in range(rng.randrange(0, 12)))
    if rng.random() < 0.4:
        m += b"\n"
    return m


def _gen_c16(rng, budget, tier):
    for _ in range(budget):
        if rng.random() < 0.5:
            yield "c16.colorfy " + hexs(message(rng).replace(b"\xac", b"~"))
        else:
            kind = rng.choice(["base", "base", "mapr", "health"])
            stream = b""
            for _ in range(rng.choice([1, 1, 2, 3, 5])):
                m = message(rng).replace(b"\xac", b"~")
                stream += m + (b"\xac" if rng.random() < 0.85 else b"")
            yield f"c16.write {kind} {rng.randrange(2)} {rng.choice([1, 2, 3, 7, 4096])} {hexs(stream)}"


TABLE_VALUES = [b"web1", b"a", b"", b"Z\xc3\xbcrich", b"\xc5\x81\xc3\xb3d\xc5\xba\xe2\x80\x93\xc5\xbbyrard\xc3\xb3w", b"\xe5\xa4\xa7\xe9\x98\xaa\xe5\xba\x9c\xe5\xa4\xa7\xe9\x98\xaa\xe5\xb8\x82",
                b"x" * 40, b"\xff\xfe", b"a|b", b"tab\tin it", b"\x1b[31mred"]


def gen_table(rng, n):
    """the result table (GroupSet.Result) with non-ASCII, wide, long, empty and hostile values as group keys and
    last() values, under every ordering clause"""
    from lib import hexs
    for _ in range(n):
        q = "select count(x),last(h),max(x) from T group by h" + rng.choice([" order by count(x)", " rorder by max(x)", " rorder by count(x)"])   # without an order key the row order is the map's
        gs = []
        ng = rng.choice([1, 2, 3, 6])
        counts = rng.sample(range(1, 10 ** rng.choice([2, 3, 9])), ng)          # distinct order keys
        keys = rng.sample(TABLE_VALUES, ng)
        for k in range(ng):
            key, val = keys[k], rng.choice(TABLE_VALUES)
            c = counts[k]
            gs.append(f"{hexs(key) if key else hexs(b'k%d' % k)}:{c}:{hexs(b'count(x)')}={c}|,{hexs(b'last(h)')}=|{hexs(val) if val else ''},{hexs(b'max(x)')}={c * 3}|")
        yield f"c16.table {hexs(q.encode())} {';'.join(gs)}"


def gen(rng, budget, tier):
    yield from _gen_c16(rng, budget, tier)
    yield from gen_table(rng, 60 if tier == "quick" else 3000)
    # well-formed AGGREGATE records for the mapreduce handler's query, with every kind of numeric text a server's
    # strconv.ParseFloat-accepted field can carry (finite, huge, NaN, infinities) and garbage (added last)
    vals = [b"1", b"42", b"0", b"-3", b"1e3", b"NaN", b"nan", b"Inf", b"+Inf", b"-Inf", b"infinity", b"-Infinity", b"1e999", b"x", b""]
    for _ in range(60 if tier == "quick" else 3000):
        stream = b""
        for _ in range(rng.choice([1, 2, 3, 5])):
            grp = rng.choice([b"web1", b"a", b"", b"y z"])
            rec = b"AGGREGATE|srv1|" + grp + "∥".encode() + rng.choice([b"1", b"3", b"0", b"x"]) + "∥".encode() \
                + b"count(x)" + "≔".encode() + rng.choice(vals) + "∥".encode()
            stream += rec + b"\xac"
        yield f"c16.write mapr {rng.randrange(2)} {rng.choice([1, 7, 4096])} {hexs(stream)}"
    # several servers' lines coloured at the same time, one goroutine per connection (added last)
    yield "c16.race 8 60000"
    yield "c16.race 12 20000"
    if tier == "thorough":
        for _ in range(6):
            yield f"c16.race {rng.choice([4, 8, 16])} 200000"
