"""C14 — connection slots are bounded by MaxConnections and always given back."""

MODULE = "DtailModel.Props.C14"
# translated packages (tie G) this property's theorems rest on
GEN_UNITS = ("Conn",)
# scripts with real waits: a disagreement counts only if it reproduces when re-run alone (flake policy, DESIGN 2.3)
TIMED_OPS = ("c14.script",)
GROUPS = ["C14"]
LOGGER = "none"
JOBS = 16
BUDGET = {"quick": 160, "thorough": 3000}
TECHNIQUE = "Lean 4 invariant proof over all connection histories of a labelled transition system + scripted SSH histories against an in-process server"
LEVEL_TEXT = ("Lean theorem C14_full_holds: for every MaxConnections and every history of connects (accepted or refused), failed and successful "
              "handshakes, any number of shell requests and closes, the reported number of connections equals the number actually open, is "
              "never negative and never exceeds the limit; C14_accept_iff: a connect is accepted exactly when fewer are open; tied to the "
              "code by scripted histories against a real in-process server (server.New().Start), the harness speaking SSH itself and reading "
              "the counter after every step; every step also observes the ESTABLISHED sockets the server side holds (/proc/self/net/tcp) and demands counter = sockets; peers that stay silent for 11 s and more before they log in; tie G: serverLimitExceeded / incrementConnections / decrementConnections of internal/server/stats.go are translated on every run and C14_generated_counter_refines_model proves them to be the counter operations of the model's steps (the mutex and the log line are outside the translation); the driver steps the translated counter beside the model in every script")
TRUSTED = ["Lean 4 kernel", "axioms: propext, Quot.sound, Classical.choice (at most)", "overlay harness + dtmodel driver + this diff", "Go->Lean translator (unit Conn) with its prelude GoRT; that listenerLoop calls the limit test, then either closes or increments before handing the connection on, and handleConnection defers the decrement, is observed by the scripted histories, not translated",
           "modelled not verified: golang.org/x/crypto/ssh (NewServerConn fails for bad credentials and vanished clients, the channel stream "
           "of a connection ends when the connection ends), the TCP stack, goroutine scheduling (one interleaving per script)"]
ASSUMPTIONS = ["listener.Accept is called from one goroutine (limit check and slot reservation are not interleaved with another accept)"]
RULE = ("seeded histories over 1..7 connections and MaxConnections 1..3: raw TCP connects that handshake later / never, good and bad "
        "credentials, logins that never open a session, several shell requests, closes in any order, connects beyond the limit; the three "
        "repaired defect histories run first; non-trivial = refused / badcred / shell / rawtcp / full tag")


def gen(rng, budget, tier):
    yield "c14.script 3 A0,X0,A1,X1,A2,X2,A3,X3"          # logins that never request a shell used to leak their slots
    yield "c14.script 3 A0,S0,S0,X0,A1,X1"                  # two shell requests used to decrement twice
    yield "c14.script 1 T0,T1,H0,H1,X0,X1"                  # connects overlapping their handshakes used to exceed the limit
    # a peer that connects, stays silent for a long time and only then logs in keeps its slot all the while
    yield "c14.script 2 T0,T1,W11000,H0,H1,A2,X0,X1,X2"
    if tier == "thorough":
        yield "c14.script 1 T0,W31000,H0,A1,X0,X1"
        yield "c14.script 3 A0,T1,W16000,S0,H1,T2,X0,X1,X2"
    for _ in range(budget):
        mx = rng.choice([1, 2, 3])
        n = rng.choice([2, 3, 5, 7])
        ops, made = [], []
        for _ in range(rng.randrange(3, 3 * n + 2)):
            r = rng.random()
            if r < 0.4 and len(made) < n:
                i = len(made)
                made.append(i)
                ops.append(rng.choice(["A", "A", "T"]) + str(i))
            elif made:
                i = rng.choice(made)
                ops.append(rng.choice(["H", "B", "S", "S", "X", "X"]) + str(i))
        if ops:
            yield f"c14.script {mx} {','.join(ops)}"
    # clients that flood their session channel with requests and go away (added last)
    yield "c14.script 3 A0,Q0,A1,Q1,A2,Q2,A3,X3"
    yield "c14.script 2 A0,U0,A1,U1,A2,U2,A3,X3"
    for _ in range(6 if tier == "quick" else 200):
        mx = rng.choice([1, 2, 3])
        ops = []
        for i in range(rng.choice([2, 4, 5])):
            ops += [f"A{i}", rng.choice(["Q", "U", "Q", "S"]) + str(i)] + ([f"X{i}"] if rng.random() < 0.5 else [])
        yield f"c14.script {mx} {','.join(ops)}"


def _oracle(case, s):
    if ";final=" not in s:
        return s
    mx = int(case.split(" ")[1])
    obs, final = s.split(";final=")
    vals = [int(o.split("/")[0]) for o in obs.split(",")]
    held = [int(o.split("/")[2]) for o in obs.split(",") if o.count("/") >= 2]
    if max(vals) > mx or min(vals) < 0 or (held and max(held) > mx):
        return "OUT-OF-BOUNDS;final=" + final
    if any(int(o.split("/")[0]) != int(o.split("/")[2]) for o in obs.split(",") if o.count("/") >= 2):
        return "COUNTER-IS-NOT-THE-NUMBER-OF-OPEN-CONNECTIONS;final=" + final
    return "bounded;final=" + final


PROJ = {"c14.script": _oracle}
