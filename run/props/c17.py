"""C17 — the client talks only to servers whose host key is trusted."""
from lib import hexs

MODULE = "DtailModel.Props.C17"
# translated packages (tie G) this property's theorems rest on
GEN_UNITS = ("KnownHosts",)
# scripts with real waits: a disagreement counts only if it reproduces when re-run alone (flake policy, DESIGN 2.3)
TIMED_OPS = ("c17.wrap", "c17.client")
GROUPS = ["C17"]
LOGGER = "none"
JOBS = 16
BUDGET = {"quick": 500, "thorough": 8000}
LEVEL_TEXT = ("Lean theorems: C17_proceed_iff (the callback proceeds iff known, trust-all, or the first decisive answer is yes/all), "
              "C17_refused, C17_rewrite (new entries added, every old line with an unrelated address kept unchanged and in order, nothing "
              "else written) for every host list and file; tied to the code by the real trustHosts on generated known_hosts files (lines and "
              "normalised addresses taken from the knownhosts library) and the real Wrap()+PromptAddHosts with scripted stdin; scripts in which nobody answers and the client's context ends (no answer is no approval), and several attempts through the same callback after a refusal; tie G: KnownHostsCallback.trustHosts is translated on every run with its file operations recorded (C17_generated_trustHosts_writes_model_lines: when no operation fails it does not panic, writes exactly the model's trustHostsLines into the temporary file and ends with the rename over the old file; Normalize and the scanner's lines are parameters); c17.trust runs the translated function beside the model")
TRUSTED = ["Lean 4 kernel", "Go->Lean translator (unit KnownHosts: file operations as recorded effects, the scanner as the list of its lines, panic(…) as a panic of the translation, a value receiver that carries the history) with its prelude GoRT", "axioms: propext, Quot.sound, Classical.choice (at most)", "overlay harness + dtmodel driver + this diff",
           "modelled not verified: golang.org/x/crypto/ssh/knownhosts (matching of known/hashed/revoked entries, Line, Normalize), "
           "that a non-nil host-key callback error aborts the dial (library contract), bufio.Scanner, os.Rename"]
ASSUMPTIONS = ["a refused host receives no commands because ssh.Dial fails when the callback returns an error"]
RULE = ("seeded known_hosts files: plain, hashed (|1|..), multi-host, @revoked/@cert-authority, comments, blank lines, CRLF, missing "
        "final newline, entries for the hosts being added (host form, [host]:port form, IP form), an over-long line; 0..4 new hosts incl. "
        "the same host twice; all prompt answer sequences for known/unknown/changed keys with and without trust-all; non-trivial = a tag")

KEY = "ssh-ed25519 AAAAC3NzaC1lZDI1NTE5AAAAIFakeFakeFakeFakeFakeFakeFakeFakeFakeFakeFake"


def model_case(case, impl):
    if case.startswith("c17.trust"):
        if "#" not in impl:
            return case + " -"
        return case + " " + impl.split("#", 1)[0]
    return case


def impl_view(case, impl):
    if case.startswith("c17.trust") and "#" in impl:
        return impl.split("#", 1)[1]
    return impl


def gen(rng, budget, tier):
    hosts_pool = [("srv1.example.org:2222", "10.0.0.1:2222"), ("srv2:22", "10.0.0.2:22"), ("srv3", "10.0.0.3:2222"),
                  ("[::1]:2222", "[::1]:2222"), ("srv1.example.org:2222", "10.0.0.9:2222")]
    old_pool = ["# comment", "", "other.example.org " + KEY, "|1|c2FsdA==|aGFzaA== " + KEY, "a.example.org,b.example.org " + KEY,
                "@revoked * " + KEY, "@cert-authority *.example.org " + KEY, "[srv1.example.org]:2222 " + KEY, "srv2 " + KEY,
                "[10.0.0.1]:2222 " + KEY, "10.0.0.2 " + KEY, "[srv1.example.org]:2222,[10.0.0.1]:2222 " + KEY, "srv3 " + KEY,
                "  leading " + KEY, "srv2\t" + KEY, "noKeyAtAll", "[srv1.example.org]:2222"]
    # the prompt decision: every state x trust-all x answer script (each case waits ~2 s for the batching prompt)
    answers = ["y", "yes", "n", "no", "a", "all", "d,y", "d,n", "x,,no", "maybe,yes", "Y,n"]
    wraps = [f"c17.wrap {st} {ta} {an}" for st in ("known", "unknown", "changed") for ta in (0, 1) for an in answers]
    rng.shuffle(wraps)
    # the client's context ends while an unknown host waits for the prompt: nobody approved it
    yield "c17.wrap unknown 0 CANCEL"
    yield "c17.wrap changed 0 CANCEL"
    yield "c17.wrap known 0 CANCEL"
    # a refused host is contacted again through the same callback (what dtail's reconnect does): refused again unless approved now
    yield "c17.wrap unknown 0 n|n"
    yield "c17.wrap changed 0 no|x,,no"
    yield "c17.wrap unknown 0 n|y"
    yield "c17.wrap unknown 0 no|n|n"
    for w in wraps[: (24 if tier == "quick" else len(wraps))]:
        yield w
    for i in range(budget):
        lines = [rng.choice(old_pool) for _ in range(rng.choice([0, 1, 2, 4, 8]))]
        nl = rng.choice(["\n", "\n", "\n", "\r\n"])
        old = nl.join(lines) + (nl if lines and rng.random() < 0.8 else "")
        if i % 97 == 5:
            lines.insert(rng.randrange(len(lines) + 1), "big.example.org " + "A" * 70000)
            old = "\n".join(lines) + "\n"
        hs = [rng.choice(hosts_pool) + (rng.randrange(3),) for _ in range(rng.choice([0, 1, 1, 2, 4]))]
        spec = ";".join(f"{h[0]}~{h[1]}~{h[2]}" for h in hs) if hs else "-"
        yield f"c17.trust {hexs(old.encode())} {spec}"
    # a whole client built as cmd/dcat builds it, against a local SSH server with a fresh host key (added last)
    clients = [f"c17.client {au} {ta} {st} {an}" for au in ("key", "default", "preset") for ta in (0, 1) for st in ("known", "unknown") for an in ("y", "n")]
    rng.shuffle(clients)
    yield "c17.client key 0 unknown n"
    yield "c17.client default 0 unknown n"
    for c in clients[: (6 if tier == "quick" else len(clients))]:
        yield c


# several attempts through one callback: only the verdicts are compared (what is recorded in between is the single-attempt cases' business)
CANON = {"c17.wrap": lambda s: s.split(";")[0] if "|" in s.split(";")[0] else s}
