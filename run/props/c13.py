"""C13 — concurrent file reads never exceed the configured limits."""

MODULE = "DtailModel.Props.C13"
# scripts with real waits: a disagreement counts only if it reproduces when re-run alone (flake policy, DESIGN 2.3)
TIMED_OPS = ("c13.script", "c13.tail", "c13.session")
GROUPS = ["C13"]
LOGGER = "none"
BINS = True
JOBS = 16
BUDGET = {"quick": 220, "thorough": 5000}
TECHNIQUE = "Lean 4 invariant proof over all histories of a labelled transition system + scripted trace acceptance against the real limiter code"
LEVEL_TEXT = ("Lean theorem C13_full_holds: for every capacity and every history of reads starting, queueing, acquiring, finishing and "
              "being cancelled at any point, the number of files being read equals the number of limiter tokens and never exceeds the limit "
              "(invariant by induction over label sequences), plus progress and cancel-neutrality; tied to the code by scripted histories "
              "driven through the real readCommand.read on FIFOs, the harness owning the limiter channel and the contexts: the limiter "
              "length and the number of returned reads after every step must be what the model's run of the same script gives; further histories: c13.tail (follows whose file is truncated and re-read, cancels around the retry window, probe lines), D steps (a read whose session is gone before it starts), c13.session (whole multi-command sessions through ServerHandler.Write / Shutdown on one shared limiter), c13.jobs (a real dserver whose own continuous jobs follow files, /proc/<pid>/fd)")
TRUSTED = ["Lean 4 kernel", "axioms: propext, Quot.sound, Classical.choice (at most)", "overlay harness + dtmodel driver + this diff",
           "modelled not verified: Go channel and select semantics, goroutine scheduling (the model's labels are the scheduler's choices; "
           "the scripts exercise one interleaving per history), that a read holds its slot exactly while the reader runs"]
ASSUMPTIONS = ["quiescence is detected by a stable limiter length (a slow machine can only make a script inconclusive, never wrong: see flake policy in DESIGN)"]
RULE = ("seeded histories over 1..6 reads and capacity 1..3: starts beyond the capacity (queueing), cancels of waiting / holding / finished "
        "reads, file ends in any order; every history is replayed on the real code; non-trivial = the history contains a cancel or fills the limiter; glob sessions: ONE command whose glob matches several files, ended while other sessions hold or wait for slots")


TAIL_BUDGET = {"quick": 10, "thorough": 120}


def gen_tail(rng, budget):
    """follows against the tail limiter whose file is truncated (the reader returns, readCommand.read re-reads the
    file after 2 s): the slot of a follow in its retry loop, cancels placed before / inside / after the retry
    window, other follows queueing behind it.  One script takes 5..9 s of real time (3 s truncation check, 2 s sleep)."""
    yield "c13.tail 1 S0,S1,X0,W5500,C0,S2,W300"
    yield "c13.tail 1 S0,X0,W3600,C0,S1,W2500,S2"
    for _ in range(budget):
        cap = rng.choice([1, 1, 2])
        n = cap + rng.choice([1, 2])
        ops = [f"S{i}" for i in range(n)]
        victims = rng.sample(range(cap), rng.randrange(1, cap + 1))      # holders whose file is truncated
        ops += [f"X{i}" for i in victims]
        ops.append(f"W{rng.choice([3300, 4000, 5500, 6500])}")
        for i in victims:
            if rng.random() < 0.8:
                ops.append(f"C{i}")
        ops.append(f"S{n}")
        ops.append(f"W{rng.choice([100, 600, 2500])}")
        if rng.random() < 0.5:
            ops.append(f"C{rng.randrange(n)}")
        yield f"c13.tail {cap} {','.join(ops)}"


def gen_session(rng, n):
    """whole sessions (several follow commands each) through ServerHandler.Write / Shutdown on one shared tail limiter"""
    yield "c13.session 1 N0x1,N1x2,K1,K0"
    yield "c13.session 2 N0x3,N1x2,K0,N2x1,K1,K2"
    for _ in range(n):
        cap = rng.choice([1, 1, 2, 3])
        ops, live, nxt = [], [], 0
        for _ in range(rng.randrange(3, 9)):
            if live and rng.random() < 0.45:
                s = rng.choice(live)
                live.remove(s)
                ops.append(f"K{s}")
            else:
                ops.append(f"N{nxt}x{rng.choice([1, 2, 2, 3])}")
                live.append(nxt)
                nxt += 1
        yield f"c13.session {cap} {','.join(ops)}"


def gen_glob_session(rng, n):
    """sessions whose ONE follow command matches several files (a glob): some of its reads hold a slot, the others queue;
    the session ends while another session's read holds or waits for a slot of the same limiter"""
    yield "c13.session 2 N0x1,N1g3,K1,N2x1,K0,K2"
    yield "c13.session 2 N0g3,N1x1,K0,N2x2,K1,K2"
    for _ in range(n):
        cap = rng.choice([2, 2, 3])
        ops, live, nxt = [], [], 0
        for _ in range(rng.randrange(4, 9)):
            if live and rng.random() < 0.45:
                s = rng.choice(live)
                live.remove(s)
                ops.append(f"K{s}")
            else:
                ops.append(f"N{nxt}{rng.choice('gggx')}{rng.choice([1, 2, 3, 4])}")
                live.append(nxt)
                nxt += 1
        yield f"c13.session {cap} {','.join(ops)}"


def gen(rng, budget, tier):
    # the server's own continuous jobs against the tail limit (a real dserver process, about 8 s)
    yield "c13.jobs 1 2"
    if tier == "thorough":
        yield "c13.jobs 2 4"
    yield from gen_tail(rng, TAIL_BUDGET[tier])
    yield from gen_session(rng, 40 if tier == "quick" else 800)
    # the witness of the repaired defect first
    yield "c13.script 1 S0,S1,C1,S2,F0,F2"
    yield "c13.script 2 D0,D1,D2,D3,D4,D5,S6,S7,F6,F7"     # sessions gone before their reads start
    for _ in range(budget):
        cap = rng.choice([1, 1, 2, 3])
        n = rng.choice([2, 3, 4, 6])
        ops, started, ended, cancelled = [], [], set(), set()
        for _ in range(rng.randrange(3, 4 * n)):
            r = rng.random()
            if r < 0.12 and len(started) < n + 4:
                # a read whose session is gone before it starts (dead on arrival), slot free or not
                i = len(started)
                started.append(i)
                ended.add(i)
                cancelled.add(i)
                ops.append(f"D{i}")
            elif r < 0.45 and len(started) < n:
                i = len(started)
                started.append(i)
                ops.append(f"S{i}")
            elif r < 0.7 and started:
                i = rng.choice(started)
                ops.append(f"C{i}")
                cancelled.add(i)
            elif started:
                i = rng.choice(started)
                ops.append(f"F{i}")
                ended.add(i)
        if ops:
            yield f"c13.script {cap} {','.join(ops)}"
    # seeded round 6 (added last: earlier streams keep their cases): one command, several files
    yield from gen_glob_session(rng, 12 if tier == "quick" else 300)


def _oracle_for(case, s):
    """the property on an observation: never more tokens than the capacity, every slot given back"""
    if ";final=" not in s:
        return s
    cap = int(case.split(" ")[1])
    obs, final = s.split(";final=")
    top = max(int(o.split("/")[2]) for o in obs.split(","))      # files being read at once
    return ("within-limit" if top <= cap else "LIMIT-EXCEEDED") + ";final=" + final


def impl_view(case, impl):
    if case.startswith("c13.jobs"):
        return impl.replace(" ", "_")
    if case.startswith("c13.tail"):
        return impl.split(";maxreading=")[0]
    return impl


def model_case(case, impl):
    if case.startswith("c13.jobs"):
        return case + " " + impl.replace(" ", "_")
    if case.startswith("c13.tail"):
        return case + " " + impl.split(";maxreading=")[1] if ";maxreading=" in impl else None
    return case


PROJ = {"c13.script": _oracle_for, "c13.tail": lambda s: "final=" + s.split(";final=")[1] if ";final=" in s else s}
