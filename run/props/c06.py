"""C06 — a mapreduce query accounts for every file of every server under any scheduling."""

MODULE = "DtailModel.Props.C06"
# scripts with real waits: a disagreement counts only if it reproduces when re-run alone (flake policy, DESIGN 2.3)
TIMED_OPS = ("c06.fifo", "c06.queue", "c06.merge", "c06.server", "c06.interim")
GROUPS = ["C06", "C15"]
LOGGER = "none"
JOBS = 16
BUDGET = {"quick": 44, "thorough": 700}
TECHNIQUE = ("Lean 4 invariant proof over all interleavings of a labelled transition system (readers, aggregator, channel rotation) + "
             "scripted sessions on the real ServerHandler with FIFO files + scripted client merges with a held semaphore")
LEVEL_TEXT = ("Lean theorems C06_invariant / C06_no_duplicates (every reachable state of the server-side aggregator under every interleaving of "
              "file readers, aggregator steps and rotation goroutines: no line is taken twice, none beyond the file), C06_partial (when the "
              "aggregator finishes, every file whose reader had registered in time and that is not stuck in a rotation is aggregated "
              "completely), C06_full_false_* (the two ways the unchanged code loses a file: recorded finding), C06_arrival_order_irrelevant "
              "(the client's global group is the same for every arrival order of the servers' partials); tied to the code by scripted "
              "mapreduce sessions on the real ServerHandler whose files are FIFOs (the script decides when each reader registers, writes a "
              "line, ends), the per-file counts of all AGGREGATE messages must be what the model's run of the same script under the eager "
              "schedule gives (C06_scripted_schedule_is_interleaving), and by scripted client-side merges through the real "
              "client.Aggregate with the global group's semaphore held by the script; the client's reporting path: c15.race (final report against the periodic reporter on one outfile) and c06.report (periodic reporter, merging connection handlers, final report while the reporter is alive: the outfile accounts for every partial result)")
TRUSTED = ["Lean 4 kernel", "axioms: propext, Quot.sound, Classical.choice (at most)", "overlay harness + dtmodel driver + this diff",
           "modelled not verified: Go channel / select semantics and goroutine scheduling (the labels of the transition system are the "
           "scheduler's choices; each script exercises one interleaving), the kernel's FIFO semantics, the 100 ms idle sleep of the "
           "aggregator (scripts wait 150 + 110 ms x files after every step), per-line field parsing and group arithmetic (C05)"]
ASSUMPTIONS = ["the scripted sessions run as the background user (the only one allowed to read a FIFO)",
               "a settle time of 150 ms + 110 ms per file after every script step lets the aggregator reach quiescence"]
RULE = ("queue scripts on the real Aggregate: one file still being read plus 3 / 101 (thorough: up to 250) one-line files, more than NextLinesCh holds, so readers wait to register while the aggregator rotates; "
        "seeded scripts over 1..4 FIFO files: every file's cat command, 0..6 lines and its end, interleaved at random, biased to "
        "'all commands first' (complete) and 'one file after the other' (late registration) shapes; client merges of 1..4 servers with the "
        "global semaphore held at random; the witnesses of the repaired client-side loss and of the recorded server-side loss run first; "
        "non-trivial = multi-file / rotation / lost / held tag")


def _gen_c06(rng, budget, tier):
    yield "c06.merge 2 A0:x:5,H,A1:x:7,G"                   # repaired: last partial arriving while the global group is busy
    yield "c06.merge 3 H,A0:x:1,A1:y:2,A2:x:4,G,A1:y:3"
    yield "c06.fifo 2 M,C0,P0,P0,X0,C1,P1,X1"                # recorded: file 1 registers after the aggregator finished
    yield "c06.fifo 2 M,C0,C1,P0,P1,P0,X0,P1,X1"
    # seeded round 6: an interim result with far more messages than the queue holds is in flight when the input ends
    yield "c06.interim 300 5"
    # more files than NextLinesCh holds, readers waiting to register while the aggregator rotates
    yield "c06.queue 3 2"
    yield "c06.queue 101 5"
    if tier == "thorough":
        for n, k in [(98, 1), (99, 0), (100, 3), (130, 5), (250, 0)]:
            yield f"c06.queue {n} {k}"
    for k in range(budget):
        if k % 4 == 3:
            n = rng.choice([1, 2, 3, 4])
            steps, held = [], False
            for _ in range(rng.randrange(2, 10)):
                r = rng.random()
                if r < 0.2:
                    steps.append("G" if held else "H")
                    held = not held
                else:
                    steps.append(f"A{rng.randrange(n)}:{rng.choice('xyz')}:{rng.randrange(1, 50)}")
            if held and rng.random() < 0.5:
                steps.append("G")
            yield f"c06.merge {n} {','.join(steps)}"
            continue
        n = rng.choice([1, 2, 2, 3, 3, 4])
        per = [["C%d" % i] + ["P%d" % i] * rng.randrange(0, 7) + ["X%d" % i] for i in range(n)]
        shape = rng.random()
        if shape < 0.3:                                      # all commands first, then lines and ends interleaved
            head = [p.pop(0) for p in per]
        else:
            head = []
        ops = []
        if shape >= 0.85:                                    # strictly one file after the other
            for p in per:
                ops += p
        else:
            while any(per):
                p = rng.choice([q for q in per if q])
                ops.append(p.pop(0))
        yield f"c06.fifo {n} {','.join(['M'] + head + ops)}"


def gen(rng, budget, tier):
    # the final report (internal/clients/maprclient.go Start) against the periodic reporter on the same result:
    # the final outfile must account for every group although an interim report is in flight
    yield "c15.race 3000 12"
    # the client's reporting path: periodic reporter + final report against merging connection handlers
    yield "c06.report 6 200 12"
    yield from _gen_c06(rng, budget, tier)


def batches(cases):
    # the race case on its own (first), the timed scripts afterwards
    first = ("c15.race", "c06.report")
    return [[c for c in cases if c.startswith(first)], [c for c in cases if not c.startswith(first)]]
