"""C15 — a mapreduce outfile is never observable half-written."""
from lib import hexs

MODULE = "DtailModel.Props.C15"
# translated packages (tie G) this property's theorems rest on
GEN_UNITS = ("Outfile",)
GROUPS = ["C15"]
LOGGER = "none"
JOBS = 16
BUDGET = {"quick": 160, "thorough": 2500}
LEVEL_TEXT = ("Lean theorems over the operation sequence of WriteResult and every crash prefix of it: without append the outfile "
              "path holds the earlier content or the complete new result (and then the .query file holds the query), for every earlier "
              "state, result and crash point; with append earlier bytes are a prefix of every later state and a complete run adds the "
              "header only to an absent/empty file; tied to the code by running the real WriteResult under strace and comparing the "
              "syscall sequence on the outfile paths with the model's operation list, plus SIGKILL injection at operation boundaries; tie G: WriteResult, writeQueryFile, getOutfileFD, resultWriteUnformatted(Header) are translated on every run with every file operation recorded in order (C15_generated_writeresult_is_model_ops: when no operation fails the recorded history is the model's operation list, for every query, result and earlier file system; C15_generated_no_half_written: the crash theorem on the translated code; C15_generated_writeresult_never_panics, C15_generated_failures_leave_a_prefix, C15_generated_no_half_written_under_failures: whichever file operations fail, the translated function returns, what it performed is a prefix of the model's list - all of it when no error is reported - and a kill at any point of such a run leaves the outfile old or complete), and the driver runs the translated WriteResult on every case; c15.race: the client's two writers of one outfile (periodic reporter, final report) on the real GlobalGroupSet — the outfile is the single-writer result the moment the final write returns; a run whose syscall sequence no longer matches the model is killed at each of its file operations")
TRUSTED = ["Lean 4 kernel", "axioms: propext, Quot.sound, Classical.choice (at most)", "overlay harness + dtmodel driver + this diff", "strace", "Go->Lean translator (unit Outfile: os.OpenFile / WriteString / os.Rename / os.Remove become recorded operations whose failure is the parameter ext.ioErr, os.Stat and the rows of GroupSet.result are parameters, a nil query.Outfile is a guarded dereference) with its prelude GoRT",
           "modelled not verified: the OS (rename is atomic, a killed process loses nothing already written, O_TRUNC/O_APPEND semantics), "
           "fmt %f/%d rendering (integer-valued aggregates only), result row order for equal order keys (generated keys are distinct)"]
ASSUMPTIONS = ["crashes happen between system calls (a write(2) of a few bytes to a regular file is not torn)"]
RULE = ("seeded (query, groups, mode) cases: outfile with/without append, interim/final, pre-existing outfile absent / empty / earlier result, "
        "0..4 groups, order/rorder/limit, count/sum/min/max/last columns; every case runs the real WriteResult under strace; kill cases "
        "deliver SIGKILL at an operation boundary and check the surviving files; non-trivial = mode tags; c15.seq: interim writes and the final write of one run on one Query value (append: header once, rows once per write)")


def groups_arg(rng, sels, n):
    gs = []
    keys = rng.sample(["a", "b", "c", "d", "e"], n)
    counts = rng.sample(range(1, 50), n)
    for k, c in zip(keys, counts):
        cols = []
        for st, op in sels:
            if op == "last":
                cols.append(f"{hexs(st.encode())}=|{hexs(k.encode())}")
            else:
                cols.append(f"{hexs(st.encode())}={c if op == 'count' else rng.choice([c, -c, c * 3])}|")
        gs.append(f"{hexs(k.encode())}:{c}:{','.join(cols)}")
    return ";".join(gs) if gs else "-"


def gen(rng, budget, tier):
    # the client's two writers of one outfile (periodic reporter, final report) — run first, before the machine is busy
    yield "c15.race 3000 6"
    if tier == "thorough":
        yield "c15.race 20000 15"
        yield "c15.race 200 40"
    for i in range(budget):
        ops = rng.sample(["count", "sum", "min", "max", "last"], rng.choice([1, 2, 3]))
        if "count" not in ops:
            ops[0] = "count"
        sels = [(f"{op}(x)" if op != "last" else "last(h)", op) for op in ops]
        q = "select " + ",".join(s for s, _ in sels) + " from T group by h"
        q += rng.choice(["", " order by count(x)", " rorder by count(x)", " order by count(x)"])
        if rng.random() < 0.3:
            q += f" limit {rng.choice([0, 1, 2, 10])}"
        append = rng.random() < 0.4
        q += " outfile " + ("append " if append else "") + "@O"
        n = rng.choice([0, 1, 2, 4])
        if " order" not in q and " rorder" not in q:
            n = min(n, 1)                       # without an order key the row order is the map's
        final = rng.randrange(2)
        pre = rng.choice(["none", "none", "-", hexs(b"count(x)\n7\n"), hexs(b"old,data\n1,2\n3,4\n")])
        if rng.random() < 0.3:
            # a stale <outfile>.tmp (left by a run that was killed after an interim write), usually longer than the new result
            stale = rng.choice([b"count(x)\n" + b"99999,stale-row-of-an-earlier-run\n" * rng.choice([8, 40, 40]), b"count(x)\n" + b"99999,stale-row-of-an-earlier-run\n" * 40, b"", b"x"])
            pre += "/" + hexs(stale)
        kill = 0
        if rng.random() < (0.15 if tier == "quick" else 0.4):
            kill = rng.randrange(1, 30)
        yield f"c15.write {hexs(q.encode())} {groups_arg(rng, sels, n)} {final} {pre} {kill}"
    # seeded round 6: several writes of one run
    yield from _gen_seq(rng, 40 if tier == "quick" else 600)


def _gen_seq(rng, n):
    """one client run: interim writes (finalResult=false) followed by the final one, on one Query value and group set"""
    for _ in range(n):
        ops = rng.sample(["count", "sum", "max"], rng.choice([1, 2]))
        if "count" not in ops:
            ops[0] = "count"
        sels = [(f"{op}(x)", op) for op in ops]
        q = "select " + ",".join(s for s, _ in sels) + " from T group by h order by count(x)"
        append = rng.random() < 0.7
        q += " outfile " + ("append " if append else "") + "@O"
        pre = rng.choice(["none", "none", "-", hexs(b"count(x)\n7\n")])
        yield f"c15.seq {hexs(q.encode())} {groups_arg(rng, sels, rng.choice([1, 2, 4]))} {rng.choice([0, 1, 1, 2, 3])} {pre}"


def model_case(case, impl):
    if case.startswith("c15.race") or case.startswith("c15.seq"):
        return case
    f = case.split(" ")
    if f[5] != "0":
        # kill run: pass the observed state to the model, which checks it is a prefix state
        if impl.startswith("killed;"):
            return case + " " + _canon(impl.split(";", 1)[1])
        return case + " -"
    return case


def impl_view(case, impl):
    return impl


def _proj(s):
    # the specification speaks about the outfile's content only
    import re
    if s.startswith("killed;"):
        return s
    m = re.search(r"(?:^|;)out=([^;]*);", s)
    return m.group(1) if m else s


PROJ = {"c15.write": _proj, "c15.seq": _proj}


def _canon(s):
    # the outfile lives in a fresh temporary directory; the model uses the fixed directory /d
    import re
    from lib import V
    # (the work directory is evidence/work/<property>/: C15 for this check, C05 when the C05 check runs outfile cases)
    pre, post = (V + "/evidence/work/C").encode().hex(), b"/c15-".hex()
    return re.sub(pre + r"3[0-9]3[0-9]" + post + r"(?:3[0-9])+", b"/d".hex(), s)


CANON = {"c15.write": _canon, "c15.seq": _canon}


def targeted(broken_cases):
    """the syscall sequence of a run no longer matches the model: kill that very run at every one of its file
    operations (final, non-append runs first: that is where a half-written outfile can become visible)"""
    seen = 0
    for c in sorted(dict.fromkeys(broken_cases), key=lambda c: (c.split(" ")[3] != "1", "append" in bytes.fromhex(c.split(" ")[1]).decode("latin1"))):
        f = c.split(" ")
        if len(f) != 6 or f[5] != "0":
            continue
        for k in range(1, 26):
            yield " ".join(f[:5] + [str(k)])
        seen += 1
        if seen >= 4:
            break
