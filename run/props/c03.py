"""C03 — dgrep selects exactly the lines grep semantics prescribe."""
from lib import hexs

MODULE = "DtailModel.Props.C03"
# translated packages (tie G) this property's theorems rest on
GEN_UNITS = ("Regex", "Grep", "Fs")
GROUPS = ["C03"]
BINS = True
BUDGET = {"quick": 3000, "thorough": 60000}
LEVEL_TEXT = ("Lean theorem C03_ctx: the server's context automaton equals a block-wise specification of grep "
              "semantics for every line sequence, selection and before/after/max (unbounded), plus C03_filter / "
              "C03_partial for the whole filter with regex flags; tied to the code by a differential run of the real "
              "reader+filter and the dgrep binary, selection bits supplied by Go's regexp; tie G on internal/regex (Match_spec, see C12) and on the context filter itself: filterWithLContext / filterLineWithLContext / lContextNotMatched / lContextProcessBefore / lContextProcessMaxCount of readfilelcontext.go are translated on every run (ls.beforeBuf as a bounded queue, sends on lines kept, context never cancelled) and C03_generated_filter_is_grep proves that the translated filter returns normally and sends exactly the block specification, for every line list, verdicts and before/after/max; the driver runs the translated filter on every c03.grep case with a context option, and the translated filterWithoutLContext (unit Fs, with transmittable and the statistics ring; C03_generated_plain_filter: exactly the selected lines with their positions as running numbers) on every case without; long sparse files with --before up to 1000; --max alone over hits more than 100 lines apart and over more than 100 hits")
TRUSTED = ["Lean 4 kernel", "axioms: propext, Quot.sound, Classical.choice (at most)", "fact extractor (noop pattern list, flag names)",
           "overlay harness + dtmodel driver + this diff", "Go->Lean translator (unit Grep) with its prelude GoRT: a buffered channel only one goroutine touches is a bounded queue, select on it is decided by its state, the statistics calls and the line numbers are outside the translation", "modelled not verified: Go regexp (RE2) matching — an abstract predicate in every theorem"]
ASSUMPTIONS = ["the regexp engine is a deterministic function of the bytes it is given"]
RULE = ("exhaustive selection vectors up to a small length x before/after/max in {0,1,2,3,9} through the real reader "
        "(lines 'a'/'b', pattern 'a'), plus seeded random files x RE2 patterns x flags; non-trivial = the model reports a "
        "context/cut/ring branch tag; distinct by case text")

PROJ = {"c03.grep": lambda s: ",".join(p.split(":", 1)[1] for p in s.split(",") if ":" in p)}


def model_case(case, impl):
    if impl == "regex-error" or impl.count(";") < 2:
        return None
    f = case.split(" ")
    b1, b2, _ = impl.split(";", 2)
    return " ".join(f[:7] + [b1, b2, f[7]])


def impl_view(case, impl):
    return impl.split(";", 2)[2] if impl.count(";") >= 2 else impl


PATTERNS = [b"a", b"b$", b"^a", b"a+b", b"[0-9]+", b"x|y", b"\\s", b"^$", b".", b".*", b"", b"(?i)ERROR", b"o$",
            b"\\d{2,}", b"[[:alpha:]]+", b"^.{3}$", b"a.c", b"[^a]", b"\\.", b" ", b"foo bar", b"a,b;c:d", b"\\bw\\b", b"\xc3\xa9",
            b"^ab", b"^foo", b"^error", b"^a,b;c:d", b"(?i)^error 42"]
WORDS = [b"a", b"b", b"ab", b"error", b"ERROR 42", b"foo", b"foo bar", b"x", b"", b" ", b"a,b;c:d", b"abc", b"12", b"w", b"caf\xc3\xa9", b"o"]


def _gen_c03(rng, budget, tier):
    maxlen = 7 if tier == "thorough" else 5
    vals = [0, 1, 2, 3, 9]
    # exhaustive: every selection vector up to maxlen, pattern 'a' on lines a / b
    ex = []
    for n in range(0, maxlen + 1):
        for v in range(1 << n):
            content = b"".join((b"a" if (v >> i) & 1 else b"b") + b"\n" for i in range(n))
            for B in vals:
                for A in vals:
                    for M in vals:
                        ex.append(f"c03.grep 64 {B} {A} {M} 0 {hexs(b'a')} {hexs(content)}")
    rng.shuffle(ex)
    k = min(len(ex), budget // 2 if tier == "quick" else len(ex))
    yield from ex[:k]
    for _ in range(budget - k if tier == "quick" else budget):
        n = rng.choice([0, 1, 2, 3, 5, 8, 13, 30])
        lines = [rng.choice(WORDS) for _ in range(n)]
        content = b"\n".join(lines) + (b"\n" if lines and rng.random() < 0.7 else b"")
        pat = rng.choice(PATTERNS)
        B, A, M = (rng.choice([0, 0, 1, 2, 3, 9, 40]) for _ in range(3))
        m = rng.choice([64, 64, 64, 3, 5])
        inv = rng.randrange(2)
        if rng.random() < 0.08 and pat:
            yield f"c03.e2e {m} {B} {A} {M} {inv} {hexs(pat)} {hexs(content)}"
        else:
            yield f"c03.grep {m} {B} {A} {M} {inv} {hexs(pat)} {hexs(content)}"


def gen(rng, budget, tier):
    yield from _gen_c03(rng, budget, tier)
    # long files with sparse hits and a large --before: the ring of held lines fills, is flushed by a hit while partly
    # filled, refills over more than its first allocation, wraps and evicts
    for _ in range(120 if tier == "quick" else 6000):
        n = rng.choice([25, 40, 60, 90, 140])
        gaps, lines = rng.choice([[3, 19], [5, 17, 17], [1, 30, 8], [16, 16, 17], [7, 41], [2, 18, 50]]), []
        k = 0
        while len(lines) < n:
            g = gaps[k % len(gaps)] + rng.choice([0, 0, 1])
            lines += [b"line %d" % (len(lines) + i) for i in range(g)]
            lines.append(b"HIT %d" % len(lines))
            k += 1
        content = b"\n".join(lines[:n]) + b"\n"
        B = rng.choice([15, 16, 17, 20, 24, 33, 40, 100, 1000])
        yield f"c03.grep 64 {B} {rng.choice([0, 0, 2])} {rng.choice([0, 0, 3])} {rng.choice([0, 0, 0, 1])} {hexs(b'HIT')} {hexs(content)}"
    # --max alone (no context) on long files: selected lines more than 100 lines apart (the size of the reader's
    # statistics window), and more than 100 selected lines
    for _ in range(40 if tier == "quick" else 2000):
        n = rng.choice([150, 260, 420])
        step = rng.choice([60, 101, 120, 140])
        first = rng.randrange(0, 20)
        lines = [(b"HIT %d" % i) if i >= first and (i - first) % step == 0 else (b"line %d" % i) for i in range(n)]
        content = b"\n".join(lines) + b"\n"
        yield f"c03.grep 64 0 0 {rng.choice([1, 2, 2, 3, 5])} {rng.choice([0, 0, 0, 1]) if n < 200 else 0} {hexs(b'HIT')} {hexs(content)}"
    for _ in range(6 if tier == "quick" else 300):
        n = rng.choice([130, 220, 320])
        lines = [(b"HIT %d" % i) if rng.random() < 0.9 else (b"line %d" % i) for i in range(n)]
        content = b"\n".join(lines) + b"\n"
        yield f"c03.grep 64 0 0 {rng.choice([100, 101, 120, 150, 200])} 0 {hexs(b'HIT')} {hexs(content)}"
