"""C07 — multi-source output is a whole-line interleaving with correct attribution."""

MODULE = "DtailModel.Props.C07"
# scripts with real waits: a disagreement counts only if it reproduces when re-run alone (flake policy, DESIGN 2.3)
TIMED_OPS = ("c07.multi",)
# translated packages (tie G) this property's theorems rest on
GEN_UNITS = ("Handlers", "Fs")
GROUPS = ["C07", "C01"]
BINS = True
LOGGER = {"c07.multi": "none", "c07.sched": "stdout", "c07.pipe": "none", "c07.grep": "none", "c07.globid": "none", "c07.pause": "stdout"}
JOBS = 8
BUDGET = {"quick": 14, "thorough": 200}
SCHED_BUDGET = {"quick": 160, "thorough": 4000}
LEVEL_TEXT = ("Lean theorems: C07_interleave (for every number of connections and every interleaving of transport chunks each connection's "
              "printed messages are exactly those of its own byte stream, in order — nothing torn, merged or lost), C07_count_is_line_number "
              "(every delivered line, including lines flushed from the before-context ring, carries its true running number), "
              "C07_record_roundtrip; tie G: C07_generated_running_numbers — the plain filter with transmittable and the line counter, translated on every run, gives every sent line its position in the file as its number; tied to the code end to end: real dserver processes with distinct host names, the real dcat client over "
              "SSH, several files per server through a glob; every output line is parsed as one REMOTE record and each source's record "
              "sequence is compared with the model's; the file identifier: C07_globid_value, C07_globid_distinct (two paths of one cleaned glob with the same identifier are the same path; after fix 6338cfb) and tie G C07_generated_globid_refines_model (makeGlobID as translated from the working tree computes the model's identifier); further ops: c07.pipe (several real readers into one real server handler, every record checked against its line), c07.globid (non-canonical glob spellings through a real session), c07.pause (the stdout logger paused and resumed under load)")
TRUSTED = ["Lean 4 kernel", "axioms: propext, Quot.sound, Classical.choice (at most)", "overlay harness (cluster of real dserver processes) + dtmodel driver + this diff",
           "modelled not verified: the stdout logger's mutex makes a message's print atomic (the model appends whole messages), fmt.Print, SSH transport, "
           "goroutine scheduling of readers and connections (the theorem quantifies over all chunk schedules; the run samples some)",
           "the Go-to-Lean translator extract/translate.go and its prelude Model/GoRT.lean (int/uint64/float64 as Int, strings as bytes, maps as association lists; translated and real functions run on the same scripts on every run)"]
ASSUMPTIONS = ["host names and file identifiers contain no '|', newline or delimiter byte"]
RULE = ("scripted chunk schedules (c07.sched): 1..4 real client handlers, each connection's byte stream made of REMOTE records with contents "
        "from a few bytes to 200 KB (beyond the 32 KiB transport read and beyond 64 KiB), hidden messages, delimiter- and newline-terminated "
        "messages, cut into transport chunks of at most 32 KiB at random places and interleaved at random; "
        "seeded cluster runs: 1..3 servers x 1..4 files x 1..120 lines, line lengths from short to longer than one transport read (40 000 > 32 KiB), "
        "MaxLineLength below and above the line length (split lines renumber); non-trivial = multi-server / multi-file / split / long tag; c07.grep: grep readers with a selective expression into one handler (the record's number is the line's number in the file)")


def gen(rng, budget, tier):
    yield "c07.multi 2 2 3 20 1024"
    yield "c07.multi 2 3 30 5000 1048576"
    yield "c07.multi 2 2 4 40000 1048576"      # lines larger than one transport read
    for _ in range(budget):
        ns = rng.choice([1, 2, 2, 3])
        nf = rng.choice([1, 2, 3, 4])
        nl = rng.choice([1, 5, 40, 120])
        ll = rng.choice([10, 30, 300, 2000, 20000])
        if ll >= 2000:
            nl = min(nl, 12)
        mll = rng.choice([1048576, 1048576, 64, 1024])
        yield f"c07.multi {ns} {nf} {nl} {ll} {mll}"


def _parts(tokens):
    """tokens: list of ('lit', bytes) / ('run', n, byte) -> chunk text"""
    out = []
    for t in tokens:
        if t[0] == "lit":
            if t[1]:
                out.append(t[1].hex())
        elif t[1] > 0:
            out.append(f"R{t[1]}x{t[2]:02x}")
    return ".".join(out)


def _stream(rng, conn, tier):
    """a connection's byte stream as tokens"""
    toks = []
    for k in range(1, rng.choice([1, 2, 3, 6]) + 1):
        r = rng.random()
        if r < 0.1:
            toks.append(("lit", b".hidden message %d\xac" % k))
            continue
        size = rng.choice([0, 5, 60, 900, 30000, 33000, 65535, 65536, 70000, 100000, 200000] if r < 0.6 else [0, 5, 60, 900])
        toks.append(("lit", b"REMOTE|srv%d|100|%d|f%d|src=%d n=%d " % (conn, k, conn, conn, k)))
        toks.append(("run", size, 0x61 + conn))
        toks.append(("lit", rng.choice([b"\n\xac", b"\n\xac", b"\xac", b"\n"])))
    return toks


def _cut(rng, toks, maxlen=32768):
    """cut a token stream into chunks of 1..maxlen bytes"""
    chunks, cur, room = [], [], rng.choice([maxlen, maxlen, rng.randrange(1, maxlen)])
    def flush():
        nonlocal cur, room
        if cur:
            chunks.append(cur)
        cur, room = [], rng.choice([maxlen, maxlen, maxlen, rng.randrange(1, maxlen), rng.randrange(1, 64)])
    for t in toks:
        if t[0] == "lit":
            data = t[1]
            while data:
                take = min(room, len(data))
                cur.append(("lit", data[:take]))
                data, room = data[take:], room - take
                if room == 0:
                    flush()
        else:
            n = t[1]
            while n:
                take = min(room, n)
                cur.append(("run", take, t[2]))
                n, room = n - take, room - take
                if room == 0:
                    flush()
    flush()
    return chunks


def gen_sched(rng, budget, tier):
    # a 100 000-byte message of connection 0 in 32 KiB reads, another connection's line in between
    yield "c07.sched 2 0:" + _parts([("lit", b"REMOTE|srv0|100|1|f0|"), ("run", 32747, 0x61)]) + ",0:R32768x61,1:" + \
        _parts([("lit", b"REMOTE|srv1|100|1|f1|short line of the other source\n\xac")]) + ",0:R32768x61,0:" + \
        _parts([("run", 1696, 0x61), ("lit", b"\n\xac")])
    for _ in range(budget):
        n = rng.choice([1, 2, 2, 3, 4])
        queues = [[(i, c) for c in _cut(rng, _stream(rng, i, tier))] for i in range(n)]
        sched = []
        while any(queues):
            q = rng.choice([q for q in queues if q])
            sched.append(q.pop(0))
        yield f"c07.sched {n} " + ",".join(f"{i}:{_parts(c)}" for i, c in sched)


_gen_multi = gen


PIPE_BUDGET = {"quick": 40, "thorough": 1500}


def gen_pipe(rng, budget, tier):
    """several real readers into one real server handler, transport buffers from tiny to 32 KiB, lines up to
    3 x 32 KiB: the readers recycle their line buffers through the shared pool while the handler hands a long
    record out in pieces"""
    yield "c07.pipe 32768 6x100000;6x100000;6x100000"
    yield "c07.pipe 4096 8x40000;8x40000"
    for _ in range(budget):
        k = rng.choice([1, 2, 2, 3, 4])
        srcs = []
        for _ in range(k):
            ll = rng.choice([10, 200, 5000, 32700, 32768, 33000, 40000, 70000, 100000])
            n = rng.choice([1, 3, 8, 20]) if ll >= 5000 else rng.choice([1, 5, 40, 150])
            srcs.append(f"{n}x{ll}")
        yield f"c07.pipe {rng.choice([7, 100, 4096, 32768, 32768])} {';'.join(srcs)}"
    # seeded round 6: the same through grep readers with a selective expression (the number a record carries is the line's
    # number in the file, not its rank among the selected lines)
    yield "c07.grep 4096 40x30;25x200 5"
    for _ in range(max(6, budget // 4)):
        srcs = [f"{rng.choice([5, 12, 40, 150])}x{rng.choice([10, 200, 5000])}" for _ in range(rng.choice([1, 2, 3]))]
        yield f"c07.grep {rng.choice([100, 4096, 32768])} {';'.join(srcs)} {rng.choice([2, 5])}"


GLOB_SPELLINGS = ["@R/logs/*/app.log", "@R/logs//*/app.log", "@R/./logs/*/app.log", "@R/logs/x/../*/app.log", "@R//logs/*/*.log",
                  "@R/logs/web1/*.log", "@R/logs/web1/app.log", "@R/*/web1/app.log", "@R/*/*/app.log", "@R/logs/./*/./app.log",
                  "@R/logs/*/", "@R/logs/w*1/a*", "@R/logs/web?/app.log", "@R/logs/web[12]/app.log", "@R/nothing/*/x"]


def gen_globid(rng, tier):
    for g in GLOB_SPELLINGS:
        yield "c07.globid " + g.encode().hex()


def model_case(case, impl):
    if case.startswith("c07.globid"):
        return case + " " + impl.split("#", 1)[1] if "#" in impl else None
    return case


def impl_view(case, impl):
    if case.startswith("c07.globid"):
        return impl.split("#", 1)[0]
    return impl


def gen(rng, budget, tier):
    yield from gen_sched(rng, SCHED_BUDGET[tier], tier)
    yield from gen_pipe(rng, PIPE_BUDGET[tier], tier)
    yield from gen_globid(rng, tier)
    # the logger that serialises all connections, paused and resumed (prompt, statistics display) under load
    yield "c07.pause 3 4000 25"
    yield "c07.pause 1 6000 40"
    yield from _gen_multi(rng, budget, tier)


def batches(cases):
    return [[c for c in cases if c.startswith("c07.sched")], [c for c in cases if c.startswith("c07.pipe") or c.startswith("c07.grep")],
            [c for c in cases if c.startswith("c07.globid")], [c for c in cases if c.startswith("c07.pause")],
            [c for c in cases if c.startswith("c07.multi")]]
