"""C07 — multi-source output is a whole-line interleaving with correct attribution."""

MODULE = "DtailModel.Props.C07"
GROUPS = ["C07"]
BINS = True
LOGGER = "none"
JOBS = 8
BUDGET = {"quick": 14, "thorough": 200}
LEVEL_TEXT = ("Lean theorems: C07_interleave (for every number of connections and every interleaving of transport chunks each connection's "
              "printed messages are exactly those of its own byte stream, in order — nothing torn, merged or lost), C07_count_is_line_number "
              "(every delivered line, including lines flushed from the before-context ring, carries its true running number), "
              "C07_record_roundtrip; tied to the code end to end: real dserver processes with distinct host names, the real dcat client over "
              "SSH, several files per server through a glob; every output line is parsed as one REMOTE record and each source's record "
              "sequence is compared with the model's")
TRUSTED = ["Lean 4 kernel", "axioms: propext, Quot.sound, Classical.choice (at most)", "overlay harness (cluster of real dserver processes) + dtmodel driver + this diff",
           "modelled not verified: the stdout logger's mutex makes a message's print atomic (the model appends whole messages), fmt.Print, SSH transport, "
           "goroutine scheduling of readers and connections (the theorem quantifies over all chunk schedules; the run samples some)"]
ASSUMPTIONS = ["host names and file identifiers contain no '|', newline or delimiter byte"]
RULE = ("seeded cluster runs: 1..3 servers x 1..4 files x 1..120 lines, line lengths from short to longer than one transport read (40 000 > 32 KiB), "
        "MaxLineLength below and above the line length (split lines renumber); non-trivial = multi-server / multi-file / split / long tag")


def gen(rng, budget, tier):
    yield "c07.multi 2 2 3 20 1024"
    yield "c07.multi 2 3 30 5000 1048576"
    yield "c07.multi 2 2 4 40000 1048576"      # lines larger than one transport read
    for _ in range(budget):
        ns = rng.choice([1, 2, 2, 3])
        nf = rng.choice([1, 2, 3, 4])
        nl = rng.choice([1, 5, 40, 120])
        ll = rng.choice([10, 30, 300, 2000, 20000])
        if ll >= 2000:
            nl = min(nl, 12)
        mll = rng.choice([1048576, 1048576, 64, 1024])
        yield f"c07.multi {ns} {nf} {nl} {ll} {mll}"
