"""C12 — the server applies exactly the filter and options the user specified."""
from lib import hexs

MODULE = "DtailModel.Props.C12"
# translated packages (tie G) this property's theorems rest on
GEN_UNITS = ("Regex", "Config", "ClientArgs")
GROUPS = ["C10", "C12", "C03", "GEN"]
BINS = True
LOGGER = "none"
BUDGET = {"quick": 3000, "thorough": 60000}
LEVEL_TEXT = ("Lean theorem C12_roundtrip: for every regex (any bytes), polarity, before/after/max and mode combination the "
              "server's decode of the client's encoding yields the same command, file, line context, modes, flag and pattern "
              "(base64 and %d/Atoi as codec hypotheses); tied to the code by running the real client makeCommands -> "
              "SendMessage/Read -> server Write with a capturing callback, and the dgrep binary end to end; tie G on internal/regex as translated from the working tree on every run: C12_generated_match (Match is the first flag applied to the engine's answer), C12_generated_regex_roundtrip (Deserialize(Serialize(New p c)) selects with Match exactly the lines the client's value selects, for every expression, polarity, line and engine), C12_generated_wire_is_model_wire; gen.regex validates the translator (also on forged wire forms); c12.select decodes several requests in one process and evaluates every retained filter afterwards; C12_options_any_order: SerializeOptions ranges over a Go map, so the options reach the wire in any order — every permutation of a request's options decodes to the same line context and session modes (Lemmas/OptionOrder.lean: decoding is a fold of per-option steps that commute for different keys up to what a session can observe); tie G: C12_generated_option_decoder_refines_model — config.DeserializeOptions / setOption as translated from the working tree compute the model's deserializeOptions (same line context, option map with the same lookups, an error exactly where the model has one; Lemmas/GenOptions.lean), hence C12_generated_options_any_order on the code as it is now; the client end: Args.SerializeOptions is translated on every run (Go's map iteration order is a parameter assumed only to be a permutation) and C12_generated_client_options_reach_server proves that what the translated client writes the translated server decodes to the request, in every order; c12.roundtrip runs both translated ends")
TRUSTED = ["Lean 4 kernel", "axioms: propext, Quot.sound, Classical.choice (at most)", "fact extractor (protocol version, noop patterns, flag names)",
           "overlay harness + dtmodel driver + this diff",
           "hypotheses of the theorem, not verified: encoding/base64 round trip and alphabet, fmt %d / strconv.Atoi round trip, regexp.Compile accepts what the client accepted",
           "options are proved in canonical order; Go's random map order is exercised only by the differential run",
           "the Go-to-Lean translator extract/translate.go and its prelude Model/GoRT.lean (int/uint64/float64 as Int, strings as bytes, maps as association lists; translated and real functions run on the same scripts on every run); regexp.Compile and (*Regexp).Match are parameters (Ext) of the theorems about translated code"]
ASSUMPTIONS = ["file names without spaces (a name with a space is split by the protocol; signature space-in-file)",
               "the encoded command fits the client's 32 KiB copy buffer (signature long-command)"]
RULE = ("seeded requests: patterns stressing spaces (leading/trailing/runs), ': ; , % =', non-ASCII, newlines, 'regex:'-looking "
        "text, noop patterns; integer options incl. negative and 64-bit extremes; modes; comma separated file lists; op "
        "c12.roundtrip (in-process real client+server) and c03.e2e (dgrep binary); non-trivial = a tag (space/special/noop/...)")

PIECES = [b"a", b" ", b"  ", b":", b";", b",", b"%", b"=", b"regex:invert", b"noop", b"base64%", b"\xc3\xa9", b"\xe2\x82\xac",
          b"x y", b".", b".*", b"[ab]", b"\\s", b"protocol", b"|", b"a;b", b"k=v:w=z", b"\n", b"+", b"-1"]
FILES = [b"/var/log/x.log", b"a.log,b.log", b"/tmp/*.log", b"f", b"weird:name=1", b"x;y", b"caf\xc3\xa9.log", b""]


def model_case(case, impl):
    if case.startswith("gen.regex"):
        from props import gen_tie
        return gen_tie.regex_model_case(case, impl)
    if case.startswith("c03.e2e"):
        if impl == "regex-error" or impl.count(";") < 2:
            return None
        f = case.split(" ")
        b1, b2, _ = impl.split(";", 2)
        return " ".join(f[:7] + [b1, b2, f[7]])
    if case.startswith("c12.select"):
        return case + " " + impl.split(";", 1)[0] if ";" in impl else None
    if impl in ("regex-error", "client-error"):
        return None
    return case


def impl_view(case, impl):
    if case.startswith("gen.regex"):
        return impl.split("#", 1)[0]
    if case.startswith("c12.select"):
        return impl.split(";", 1)[1] if ";" in impl else impl
    if case.startswith("c03.e2e"):
        return impl.split(";", 2)[2] if impl.count(";") >= 2 else impl
    return impl


def _proj(s):
    # project the captured decode onto what the specification states: name|file|flag|pattern|ltx per command
    if ";" not in s or s.startswith(("PANIC", "CRASH")):
        return s
    cmds, modes = s.rsplit(";", 1)
    out = []
    for c in cmds.split(" "):
        if c == "none":
            continue
        name, argc, args, ltx = c.split("/")
        a = args.split(",")
        name = name.split("3a")[0] if False else name
        file = a[1] if len(a) > 1 else "-"
        rest = a[2:]
        flag, pat = "-", "-"
        if rest and rest[0] != "-":
            head = bytes.fromhex(rest[0])
            if head.startswith(b"regex:"):
                flag = hexs(head[6:])
            pieces = [bytes.fromhex(x) if x != "-" else b"" for x in rest[1:]]
            pat = hexs(b" ".join(pieces))
        out.append(f"{name}|{file}|{flag}|{pat}|{ltx}")
    return " ".join(out) + ";" + modes


PROJ = {"c12.roundtrip": _proj}


def _canon(s):
    # SerializeOptions iterates a Go map: the order of the options inside args[0] is random.
    # Canonicalise by sorting them (model and implementation alike).
    if ";" not in s or s.startswith(("PANIC", "CRASH")):
        return s
    cmds, modes = s.rsplit(";", 1)
    out = []
    for c in cmds.split(" "):
        if c == "none":
            out.append(c)
            continue
        name, argc, args, ltx = c.split("/")
        a = args.split(",")
        if a and a[0] != "-":
            head = bytes.fromhex(a[0]).split(b":")
            a[0] = (head[0] + b":" + b":".join(sorted(head[1:]))).hex() if len(head) > 1 else a[0]
        out.append("/".join([name, argc, ",".join(a), ltx]))
    return " ".join(out) + ";" + modes


CANON = {"c12.roundtrip": _canon}


def gen(rng, budget, tier):
    yield from _gen_c12(rng, budget, tier)
    # tie G: the translated regex package and the real one on the same expressions / forged wire forms
    from props import gen_tie
    yield from gen_tie.gen_regex(rng, 150 if tier == "quick" else 5000)


def _gen_c12(rng, budget, tier):
    big = [0, 0, 0, 1, 2, 3, 17, -1, -5, 2147483647, 9223372036854775807, -9223372036854775808]
    for _ in range(budget):
        pat = b"".join(rng.choice(PIECES) for _ in range(rng.choice([0, 1, 1, 2, 3, 5])))
        r = rng.random()
        if r < 0.1:
            # end to end through the dgrep binary; patterns whose answer depends on the line
            # terminator are C03's recorded finding and are left to C03
            safe = [p for p in PIECES if p not in (b"\n", b"\\s", b"|", b".", b".*", b"")]
            pat = b"".join(rng.choice(safe) for _ in range(rng.choice([1, 2, 3])))
            lines = [b"a b", b"x:y;z", b"", b"k=v", b"caf\xc3\xa9", b"regex:invert", b"a  b", b" lead", b"trail "]
            content = b"\n".join(rng.sample(lines, rng.randrange(1, len(lines)))) + b"\n"
            yield (f"c03.e2e 1024 {rng.choice([0, 1, 2])} {rng.choice([0, 1, 2])} {rng.choice([0, 1, 3])} "
                   f"{rng.randrange(2)} {hexs(pat)} {hexs(content)}")
            continue
        if r < 0.2:
            # several requests decoded in one process, evaluated afterwards: the same expression with both
            # polarities, noop patterns in between (state shared between decodes must not leak)
            pool = [b"a", b"ERROR", b"[ab]", b"x y", b"\\s", b".", b".*", b"k=v", b"caf\xc3\xa9", b"a;b", b"(?i)error", b"^a", b"b$",
                    b"^ab$", b"^error$", b"^x y$", b"^k=v$", b"^a;b$", b"^caf\xc3\xa9$", b"^a\\.b$"]      # a literal anchored at both ends
            pats = [rng.choice(pool) for _ in range(rng.choice([1, 2, 2, 3]))]
            reqs = []
            for _ in range(rng.choice([2, 3, 4, 6])):
                reqs.append(f"{rng.randrange(2)}:{hexs(rng.choice(pats))}")
            lines = [b"a b", b"ERROR 42", b"error", b"x y", b"", b"k=v", b"caf\xc3\xa9", b"a;b", b"zzz", b"ab",
                     b"zab", b"ab c", b"an error 7", b"x y z", b"k=v&w", b"a;b;c", b"un caf\xc3\xa9 noir", b"a.b", b"axb"]
            yield f"c12.select {','.join(hexs(l) for l in rng.sample(lines, rng.randrange(4, len(lines))))} {';'.join(reqs)}"
            continue
        mode = rng.choice(["grep", "grep", "cat", "tail"])
        if mode == "cat":
            pat = b""
        if mode == "grep" and pat == b"":
            pat = b"."
        if r > 0.97:
            pat = pat + b"x" * rng.choice([20000, 24500, 30000])      # near / beyond the 32 KiB copy buffer
        yield (f"c12.roundtrip {mode} {rng.randrange(2)} {rng.randrange(2)} {rng.choice(big)} {rng.choice(big)} "
               f"{rng.choice(big)} {rng.randrange(2)} {hexs(rng.choice(FILES))} {hexs(pat)}")
