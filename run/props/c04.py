"""C04 — following a file delivers every appended line once, in order."""
from lib import hexs

MODULE = "DtailModel.Props.C04"
# scripts with real waits: a disagreement counts only if it reproduces when re-run alone (flake policy, DESIGN 2.3)
TIMED_OPS = ("c04.tail", "c04.follow")
# translated packages (tie G) this property's theorems rest on
GEN_UNITS = ("Fs",)
GROUPS = ["C04", "GEN"]
LOGGER = "none"
JOBS = 16
BUDGET = {"quick": 110, "thorough": 2500}
TECHNIQUE = "Lean 4 theorems (chunking-independence of the tail reader, ring invariant, percentage after a drop) + scripted trace acceptance against the real TailFile"
LEVEL_TEXT = ("Lean theorems: C04_chunking / C04_complete_lines (for every way of splitting the appended bytes into writes the follower emits "
              "exactly the complete appended lines, once, in order, and holds the partial line), C04_stats_inv, C04_drop_iff_full, "
              "C04_perc_after_drop_partial (after a drop the next delivered line reports < 100 while fewer than ringSize lines went by); "
              "tied to the code by running the real TailFile.Start with a scripted writer and consumer: the delivered lines (count, "
              "percentage, content) must be reproduced by the model when it is replayed with the observed set of deliveries, and Go's "
              "float percentOf is compared with the integer formula on all 5 151 (matched, transmitted) pairs; tie G: C04_generated_code_refines_model — stats.go and readFile.transmittable as translated from the working tree on every run are the model's updatePosition / processLine (gen.stats runs translated and real code on the same scripts); c04.tail also pauses the writer for seconds in the middle of a line and starts follows inside an unfinished line")
TRUSTED = ["Lean 4 kernel", "axioms: propext, Quot.sound, Classical.choice (at most)", "fact extractor (ring size, modulus, tail reader modes)",
           "overlay harness + dtmodel driver + this diff",
           "modelled not verified: kernel visibility of appended bytes, the 100 ms poll timing (which lines find the queue full is taken from the "
           "observation), Go regexp, the truncation / re-open loop (outside the quantifier)",
           "the Go-to-Lean translator extract/translate.go and its prelude Model/GoRT.lean (int/uint64/float64 as Int, strings as bytes, maps as association lists; translated and real functions run on the same scripts on every run)"]
ASSUMPTIONS = ["the file is only appended to while it is followed"]
RULE = ("seeded scripts: 0..150 appended lines written in chunks that split lines and multi-byte characters, bursts, pauses around polls, "
        "MaxLineLength splits, with and without a filter regex, ample (100) and tiny (1) delivery queues with a stalled consumer (drops); "
        "non-trivial = drops / chunked / partial-held / filter / split tag; carriage returns: CRLF lines, a CR split from its LF by a write boundary and a poll")


def script(rng, tiny):
    n = rng.choice([0, 1, 3, 10, 40]) if not tiny else rng.choice([5, 20, 60, 150])
    words = [b"alpha", b"beta x", b"", b"caf\xc3\xa9 \xe2\x82\xad", b"0123456789" * rng.choice([1, 3]), b"warn: q", b"x",
             b"caf\xe9 cr\xe8me", b"\xff\xfe raw"]          # also bytes that are not UTF-8 at all
    data = b"".join(rng.choice(words) + b" %d" % k + b"\n" for k in range(n))
    if rng.random() < 0.4:
        data += b"partial tail"
    steps = []
    if tiny:
        steps.append("S")
    pos = 0
    while pos < len(data):
        k = rng.choice([1, 2, 3, 7, 20, 64, 500])
        steps.append("W" + hexs(data[pos:pos + k]))
        pos += k
        r = rng.random()
        if r < 0.1:
            steps.append("P")
        if tiny and r > 0.93:
            steps.append("P")
            steps.append("R")
            steps.append("S")
    if tiny:
        steps.append("P")
        steps.append("R")
    return ",".join(steps) if steps else "P"


def _gen_hand(rng, budget, tier):
    yield "c04.perc 100"
    # a write boundary inside a multi-byte character with the reader's poll in between; bytes that are not UTF-8
    yield "c04.tail 1048576 100 - - W636166c3,P,Wa920e2,P,W82,P,Wac0a,W6e6578740a"
    yield "c04.tail 1048576 100 - - W636166e9206372e86d650a,Wfffe0a,P"
    yield "c04.tail 16 100 - - W636166c3a920e2,P,W82ad20300a7820,W310a"
    # the writer pauses for seconds in the middle of a line (the follow's periodic truncation check fires meanwhile)
    yield "c04.tail 1048576 100 - - W66697273740a68656c6c6f20776f72,L3700,W6c640a6c6173740a,P"
    yield "c04.tail 1048576 100 - 6f6c640a W70617274,L3400,P,W69616c,L3300,W0a646f6e650a"
    for _ in range(budget):
        tiny = rng.random() < 0.3
        m = rng.choice([1048576, 1048576, 16, 64])
        cap = 1 if tiny else 100
        regex = rng.choice(["-", "-", hexs(b"a"), hexs(b"[0-9]$"), hexs(b"warn|x")])
        pre = rng.choice([b"", b"old line\n", b"old1\nold2\nno newline at end"])
        yield f"c04.tail {m} {cap} {regex} {hexs(pre)} {script(rng, tiny)}"


def model_case(case, impl):
    if case.startswith("c04.tail"):
        if "#" not in impl:
            return None
        obs, bits = impl.rsplit("#", 1)
        return f"{case} {obs} {bits}"
    return case


def impl_view(case, impl):
    if case.startswith("c04.tail") and "#" in impl:
        return impl.rsplit("#", 1)[0]
    return impl


def _gen_follow(rng, n):
    """the follow with its re-open loop (readCommand.read): the file's name is taken away until the reader lets go of the
    file, then given back; complete lines before and after"""
    for _ in range(n):
        pre = rng.choice([b"", b"old 1\nold 2\n"])
        before = b"".join(b"new %d\n" % i for i in range(1, rng.choice([2, 4, 9])))
        after = b"".join(b"later %d\n" % i for i in range(1, rng.choice([2, 3, 6])))
        k = rng.randrange(1, len(before))
        yield f"c04.follow 1048576 {hexs(pre)} W{hexs(before[:k])},W{hexs(before[k:])},M,W{hexs(after)},P"


def _gen_crlf(rng, n):
    """DOS-style and other carriage returns: a followed line is delivered unmodified, its '\r' included — whole "\r\n" lines, a
    '\r' split from its '\n' by a write boundary (with and without a poll in between), bare '\r' inside a line"""
    yield "c04.tail 1048576 100 - - W646f73206c696e650d0a,W0d0a,P,W706c61696e0a,W73706c69740d,P,W0a,W610d620d0a,P"
    for _ in range(n):
        words = [b"dos %d\r", b"\r", b"mid\rdle %d", b"plain %d", b"two\r\r", b"caf\xc3\xa9 %d\r"]
        data = b"".join((w % k if b"%d" in w else w) + b"\n" for k, w in ((k, rng.choice(words)) for k in range(rng.choice([3, 8, 20]))))
        steps, pos = [], 0
        while pos < len(data):
            k = rng.choice([1, 2, 5, 9, 40])
            steps.append("W" + hexs(data[pos:pos + k]))
            pos += k
            if rng.random() < 0.25:
                steps.append("P")
        steps.append("P")
        regex = rng.choice(["-", "-", hexs(b"d"), hexs(b"\\r$")])
        pre = rng.choice([b"", b"old\r\n"])
        yield "c04.tail %d 100 %s %s %s" % (rng.choice([1048576, 16]), regex, hexs(pre), ",".join(steps))


def gen(rng, budget, tier):
    # tie G: the translated stats.go / transmittable and the real functions on the same scripts
    from props import gen_tie
    yield from gen_tie.gen_stats(rng, 150 if tier == "quick" else 5000)
    yield from _gen_hand(rng, budget, tier)
    yield "c04.follow 1048576 - W6e657720310a6e657720320a,P,W6e657720330a"
    yield from _gen_follow(rng, 2 if tier == "quick" else 32)
    # added last (seeded round 6): carriage returns in followed files
    yield from _gen_crlf(rng, 6 if tier == "quick" else 150)
