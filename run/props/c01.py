"""C01 — dcat reproduces file content byte for byte."""
from lib import hexs

MODULE = "DtailModel.Props.C01"
# translated packages (tie G) this property's theorems rest on
GEN_UNITS = ("Reader", "Client")
GROUPS = ["C01"]
BINS = True
BUDGET = {"quick": 2400, "thorough": 40000}
LEVEL_TEXT = ("Lean theorems over all byte strings for the reader / framing / client automata "
              "(C01_reader, C01_partial, C01_full_false ...), tied to the code by regenerated facts and a "
              "differential run of the real reader, server Read, client Write and the dcat binary; end-to-end inputs also as .gz (one and several members), .gzip and .zst; tie G: readFile.read / handleReadByte / handleReadError of internal/io/fs/readfile.go are translated on every run (the reader is the bytes not yet delivered, sends on rawLines are kept, selects take their default or their only send) and C01_generated_reader_sends_model_lines proves that the translated reader hands the filter exactly readLines m bs for every content; c01.reader runs the translated reader beside the model; likewise the client's baseHandler.Write / handleMessage / handleHiddenMessage of internal/clients/handlers/basehandler.go (C01_generated_client_is_model: the translated Write is the model's clientFeed for every handler state and chunk; C01_generated_client_close_handshake), run by c01.pipe on the pieces the server hands out")
TRUSTED = ["Lean 4 kernel", "axioms: propext, Quot.sound, Classical.choice (at most)",
           "fact extractor /verif/extract", "overlay harness + dtmodel driver + this diff", "Go->Lean translator (unit Reader) with its prelude GoRT: the environment of the translated reader is fixed (context never cancelled, no truncation check due, the consumer of rawLines takes every line, ReadByte fails only with io.EOF)",
           "modelled not verified: gzip/zstd decoders, bufio, os file I/O, io.Copy 32 KiB buffer, SSH transport, fmt.Print"]
ASSUMPTIONS = ["the transport delivers the server's byte stream unchanged and in order",
               "decompression is transparent (checked only by the e2e runs on .gz/.zst inputs)"]
RULE = ("seeded generator over byte strings: all 256 values, line lengths at m-1,m,m+1,2m, empty lines, with/without "
        "final newline, leading '.', delimiter byte; ops c01.reader (real CatFile), c01.pipe (reader→server Read→client "
        "Write), c01.e2e (dcat binary). non-trivial = model took a split / no-final-newline / empty-line branch or a finding signature")

PROJ = {"c01.pipe": lambda s: s.rsplit(";", 1)[-1],
        "c01.reader": lambda s: "".join(p.split(":", 1)[1] for p in s.split(",") if ":" in p).replace("-", "") or "-"}


def content(rng, m, hostile):
    n_lines = rng.choice([0, 1, 1, 2, 3, 5, 8])
    out = bytearray()
    for _ in range(n_lines):
        k = rng.choice([0, 1, 2, max(m - 1, 0), m, m + 1, 2 * m, 2 * m + 1, rng.randrange(0, 3 * m + 2)])
        mode = rng.randrange(4)
        for _ in range(k):
            if mode == 0:
                b = rng.randrange(256)
            elif mode == 1:
                b = rng.choice(b"abcxyz .|,;:")
            elif mode == 2:
                b = rng.choice([0, 1, 9, 13, 27, 32, 46, 124, 127, 128, 0xC2, 0xE2, 0x82, 0xFF, 97])
            else:
                b = rng.randrange(97, 123)
            if b == 10:
                b = 11
            if not hostile and (b == 0xAC):
                b = 0xAB
            out.append(b)
        out.append(10)
    if out and rng.random() < 0.4:
        out.pop()               # no final newline
    if not hostile:
        # no raw line may start with '.', also not after a split at m
        fixed = bytearray()
        run = 0
        for b in out:
            if b == 46 and run == 0:
                b = 47
            fixed.append(b)
            run = 0 if b == 10 else run + 1
            if run == m:
                run = 0
        out = fixed
    return bytes(out)


def gen(rng, budget, tier):
    for i in range(budget):
        m = rng.choice([1, 2, 3, 4, 7, 16, 64])
        hostile = rng.random() < 0.25
        c = content(rng, m, hostile)
        r = rng.random()
        if r < 0.45:
            yield f"c01.reader {m} {hexs(c)}"
        elif r < 0.9:
            buf = rng.choice([1, 2, 3, 5, 8, 17, 64, 200, 32768])
            yield f"c01.pipe {rng.randrange(2)} {m} {buf} {rng.choice([1, 2, 3, 7, 64, 4096])} {hexs(c)}"
        else:
            yield f"c01.e2e {m} {hexs(c)}"
    # compressed inputs: gzip (one member, several members), .gzip, zstd — binary content, no final newline, long lines
    for sfx in ("gz", "gzm", "gzip", "zst", "gzm"):
        body = b"".join(bytes([rng.choice([97, 98, 0, 255, 195, 169, 32])]) * rng.choice([1, 5, 60]) + b"\n" for _ in range(rng.choice([3, 40, 400])))
        body += rng.choice([b"", b"unterminated tail"])
        yield f"c01.e2e 1048576 {hexs(body)} {sfx}"
    # lines around the 32 KiB transport buffer (e2e, default-sized MaxLineLength)
    for n in [32766, 32767, 32768, 40000, 70000]:
        yield f"c01.e2e 1048576 {hexs(b'a' * n + b'%' + bytes([10]) + b'tail' + bytes([10]))}"
    # an unterminated last line that ends exactly on a transport chunk boundary (the message delimiter arrives alone)
    for pre, n in [(b"", 32768), (b"one\ntwo\n", 32768), (b"", 65536), (b"x\n", 32767), (b"", 98304)]:
        yield f"c01.e2e 1048576 {hexs(pre + b'a' * n)}"
