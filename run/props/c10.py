"""C10 — no client-supplied bytes can crash the server."""
import base64
import os
from lib import hexs, V

EXISTS = f"{V}/evidence/work/C10/c10-exists.txt".encode()

MODULE = "DtailModel.Props.C10"
# translated packages (tie G) this property's theorems rest on
GEN_UNITS = ("MaprQuery", "Config", "Decode", "Grep")
GROUPS = ["C10"]
LOGGER = "none"
BUDGET = {"quick": 2400, "thorough": 40000}
LEVEL_TEXT = ("Lean theorems over all byte strings: the model of Write/handleCommand/handleProtocolVersion/handleBase64/"
              "DeserializeOptions/handleUserCommand/readCommand.Start/regex.Deserialize/NewAggregate/NewQuery with Go's indexing "
              "and slicing explicit never reaches a panic, except the recorded makechan finding; tied to the code by a differential "
              "run of the real ServerHandler.Write (capturing callback: exact decode; real dispatch: crash / error-message count); tie G (panic-aware): C10_generated_query_parser_never_panics — the NewQuery of the working tree, translated on every run with every index and slice expression guarded, returns a query or an error for every query text (Lemmas/GenQuery.lean); C10_generated_command_decoder_never_panics — baseHandler.handleCommand / handleProtocolVersion / handleBase64 and config.DeserializeOptions / setOption as translated from the working tree (effects dropped, every index and slice expression kept and guarded) return for every command string (Lemmas/GenDecode.lean); c10.decode evaluates the translated decoder beside the model on every command (same panics, same line context and option map); C10_generated_command_decoder_refines_model: the translated handleCommand (its callback and handleOptions calls recorded) starts exactly what the model's decodeCommand decodes, or nothing where the model reports an error")
TRUSTED = ["Lean 4 kernel", "axioms: propext, Quot.sound, Classical.choice (at most)", "fact extractor (protocol version)",
           "overlay harness + dtmodel driver + this diff",
           "modelled not verified: everything past dispatch (file I/O, regexp matching, the aggregator goroutines) is assumed panic-free; "
           "encoding/base64, regexp.Compile, strconv as total oracles"]
ASSUMPTIONS = ["a panic in any goroutine kills the process (observed as CRASH by the harness)"]
RULE = ("grammar-based streams: every command word x too few/too many arguments x option lists (valid, malformed, base64% values, huge "
        "and negative integers) x regex specs x query texts (a fixed list plus the C11 generator's pool: rendered abstract queries, every "
        "keyword directly followed by another clause, malformed classes, byte mutations), malformed envelopes (protocol word/version, missing base64, bad base64), "
        "several commands per stream, byte-level mutation; ops c10.decode (exact) and c10.run (real dispatch); non-trivial = a tag")

QUERIES = [b"select count(x) from T group by y", b"", b"select", b"`", b"select `", b"select ` from T", b"select count(x", b"from T",
           b"select a from T where b == 1 and c eq \"x y\"", b"select a,b from T limit x", b"select max(v) from T rorder by",
           b"select a from T set $x = md5sum(y)", b"select a from T set $x = f(", b"select a group", b"select a from T outfile a b c",
           b"select a where a", b"select count(a),count(a) from T order by count(a) interval 1 limit 2 logformat csv",
           b"select x)y(z from T", b"select count)$line( from T", b"select )( from T", b"select )x from T", b"select a(b)c(d) from T",
           b"select count(x)) from T", b"select ((x from T", b"select sum(x from T group by )("]
WORDS = [b"cat", b"grep", b"tail", b"map", b".ack", b"health", b"", b"CAT", b"cat:", b"x"]
OPTS = [b"", b"quiet=true", b"plain=true", b"serverless=true", b"before=2", b"after=1", b"max=3", b"before=-1", b"max=x", b"before",
        b"=", b"k=v=w", b"before=base64%Mg==", b"after=base64%!!", b"before=base64%", b"max=99999999999999999999", b"a=b"]
REGEX = [b"regex:noop ", b"regex:default a", b"regex:invert a  b", b"regex a", b"regex:bogus,noop x", b"nope:default a", b"regex:default [z-a]",
         b"regex:", b"", b"regex:default", b"regex:noop,invert x"]


def envelope(rng, decoded):
    enc = base64.b64encode(decoded)
    r = rng.random()
    if r < 0.80:
        return b"protocol 4.1 base64 " + enc + b";"
    return rng.choice([b"protocol 4.1 base64 " + enc[:-1] + b"!;", b"protocol 3 base64 " + enc + b";", b"protocol 4.1 " + enc + b";",
                       b"protocol 4.1 base64;", b"protocol  4.1 base64 " + enc + b";", b"xprotocol 4.1 base64 " + enc + b";",
                       b"protocol 4.1 base64 " + enc + b" extra;", decoded + b";", b";", b"protocol 4.1 base64 " + enc[:3] + b";",
                       b"protocol 4.1 base64 " + enc])


_POOL = {}


def query_pool(rng):
    """query texts of the C11 generator (rendered abstract queries, every keyword directly followed by another
    clause, malformed classes, byte mutations): what a client can put behind `map`"""
    import random
    from props import c11
    key = id(rng)
    if key not in _POOL:
        sub = random.Random(rng.getrandbits(32))
        _POOL.clear()
        _POOL[key] = [bytes.fromhex(c.split(" ")[1]) for c in c11.gen(sub, 250, "quick") if c.split(" ")[1] not in ("-", "")]
    return _POOL[key]


def command(rng, run):
    w = rng.choice(WORDS)
    if w.startswith(b"map"):
        if rng.random() < 0.5:
            return b"map " + rng.choice(query_pool(rng))
        return b"map " + rng.choice(QUERIES) if rng.random() < 0.9 else b"map"
    if w == b".ack":
        return rng.choice([b".ack close connection", b".ack", b".ack close", b".ack x y z"])
    opts = b":".join(rng.choice(OPTS) for _ in range(rng.choice([0, 0, 1, 2, 3])))
    head = w + (b":" + opts if opts or rng.random() < 0.2 else b"")
    file = EXISTS if run else rng.choice([b"/var/log/x", EXISTS, b"", b"a b"])
    if run and rng.random() < 0.15:
        file = b"/nonexistent-verif/x.log"
    n = rng.choice([0, 1, 2, 2, 2])
    rx = rng.choice(REGEX)
    if rng.random() < 0.4:
        # any flag list: known flags in any position and number, unknown and empty flags, with a pattern that matches some line
        flags = b",".join(rng.choice([b"default", b"invert", b"noop", b"noop", b"bogus", b""]) for _ in range(rng.choice([1, 2, 2, 3])))
        rx = b"regex:" + flags + b" " + rng.choice([b"a", b".", b"root", b"x y", b"[z-a]", b""])
    parts = [head] + ([file] if n >= 1 else []) + ([rx] if n >= 2 else [])
    return b" ".join(parts)


def gen(rng, budget, tier):
    # the whole query pool through NewAggregate (cheap: no goroutines)
    for q in QUERIES + query_pool(rng):
        yield "c10.query " + hexs(q)
    for i in range(budget):
        run = rng.random() < 0.25
        cmds = [command(rng, run) for _ in range(1 if run else rng.choice([1, 1, 1, 2, 3]))]
        if run:   # real dispatch: one command per session (what follows a finished command is session logic, C02)
            # huge line contexts: only values the runtime refuses at once (makechan panic), never ones that would be allocated
            cmds = [c.replace(b"max=99999999999999999999", b"before=4611686018427387904") if rng.random() < 0.5 else c for c in cmds]
        stream = b"".join(envelope(rng, c) for c in cmds)
        if rng.random() < 0.1 and stream and not run:
            k = rng.randrange(len(stream))
            stream = stream[:k] + bytes([rng.randrange(256)]) + stream[k + 1:]
        yield ("c10.run " if run else "c10.decode ") + hexs(stream)
    # real dispatch of read commands whose file argument is a glob that matches the existing file: wild cards in the last
    # element, and paths that are not in canonical form (doubled slash, './', 'x/../') — added last
    import os
    d, _ = os.path.split(EXISTS)
    globs = [d + b"//c10-exists.txt", d + b"//c10-*.txt", d + b"/./c10-e?ists.txt", d + b"/../C10/c10-[a-e]xists.txt", d + b"/c10-*.txt",
             d + b"//c10-ex*", d + b"/../C10//c10-exis*.txt", d + b"/./././c10-exists.tx?", b"/" + d + b"/c10-*"]
    for _ in range(60 if tier == "quick" else 3000):
        w = rng.choice([b"cat", b"grep", b"cat", b"tail"])
        opts = b":".join(rng.choice([b"quiet=true", b"plain=true", b"before=2", b"after=1", b"max=3"]) for _ in range(rng.choice([0, 1, 2])))
        head = w + (b":" + opts if opts else b"")
        rx = rng.choice([b"regex:noop ", b"regex:default a", b"regex:invert a"])
        yield "c10.run " + hexs(b"protocol 4.1 base64 " + base64.b64encode(head + b" " + rng.choice(globs) + b" " + rx) + b";")


PROJ = {"c10.query": lambda s: "no-panic" if not s.startswith(("CRASH", "PANIC", "NO-RESULT")) else s, "c10.run": lambda s: s if s.startswith(("CRASH", "PANIC", "NO-RESULT")) else "no-crash",
        "c10.decode": lambda s: s if s.startswith(("CRASH", "PANIC", "NO-RESULT")) else "no-panic"}


# real dispatch: only "did the process survive" is compared; error counts depend on session timing
CANON = {"c10.run": lambda s: "CRASH" if s.startswith(("CRASH", "PANIC", "NO-RESULT")) else "survived"}
PROJ["c10.run"] = lambda s: "CRASH" if s == "CRASH" else "no-crash"
