"""C05 — distributed mapreduce result equals central evaluation of the query."""
from lib import hexs

MODULE = "DtailModel.Props.C05"
# translated packages (tie G) this property's theorems rest on
GEN_UNITS = ("Mapr",)
GROUPS = ["C05", "C11", "GEN", "C15", "C06"]
# scripts with real waits: a disagreement counts only if it reproduces when re-run alone (flake policy, DESIGN 2.3)
TIMED_OPS = ("c06.fifo", "c06.interim")
LOGGER = "none"
JOBS = 16
BUDGET = {"quick": 1500, "thorough": 40000}
LEVEL_TEXT = ("Lean theorems: per operation the partial aggregates form a monoid under the merge, per-line aggregation is a "
              "homomorphism, hence for every table, query, partition into servers x intervals the merged result equals the central "
              "evaluation (count/sum/avg/min/max in any arrival order; last/len when partials arrive in line order, otherwise one of the "
              "candidates); tied to the code by a differential run of the real pipeline: server Aggregate (MakeFields, where, set, "
              "aggregate, Serialize) -> client Aggregate -> GlobalGroupSet merge, on generated tables in default/generickv/csv format; the whole pipeline: C05_pipeline (distributed = central as group maps for every query and every list of partial results), C05_pipeline_any_arrival_order, C05_pipeline_value; tie G: C05_generated_aggregate_refines_model / C05_generated_merge_refines_model — AggregateSet.Aggregate and Merge as translated from the working tree are contribution + combine / mergeSet (gen.agg validates the translator); one case in six runs the real aggregator goroutines (Start, aggregateAndSerialize, interim Serialize); outfile cases (c15.write) for the final report; the report itself (Model/Result.lean: rows, order by / rorder by as a stable sort, limit): C05_same_groups, C05_report_order_keys (same order keys as the central evaluation for every limit, every tie and every order in which the map range hands over the groups), C05_report (no ties: same rows), C05_report_sorted, C05_report_limit_keeps_top, C05_report_length, C05_report_stable; c05.agg compares the ordered rows of the real result()")
TRUSTED = ["Lean 4 kernel", "axioms: propext, Quot.sound, Classical.choice (at most)", "fact extractor (delimiters)",
           "overlay harness + dtmodel driver + this diff",
           "modelled not verified: float64 arithmetic (the generator emits integers only, so every sum is exact), strconv.ParseFloat/"
           "FormatFloat, map iteration order (dump sorted), serialisation round trip of a message (exercised through the real Serialize/"
           "makeFields, not proved), md5sum (not generated), limit and CSV rendering of the report (c15.write)",
           "the Go-to-Lean translator extract/translate.go and its prelude Model/GoRT.lean (int/uint64/float64 as Int, strings as bytes, maps as association lists; translated and real functions run on the same scripts on every run)"]
ASSUMPTIONS = ["every MergeNoblock succeeds (single client goroutine; the concurrent case is C06)", "csv input is one file per server"]
RULE = ("seeded tables: 0..40 lines with fields x,y,host,msg (missing / non-numeric with tunable probability), split into 1..4 servers x 1..3 "
        "intervals incl. empty parts; queries over every aggregation, group by 0..2 fields, where clauses of both kinds, set clauses; "
        "formats default/generickv/csv; non-trivial = multi-part / multi-group / minmax / lastlen / where / set tag; the server-side aggregator: c06.interim (an interim result with 300 groups in flight when the input ends) and the C06 scripts in which every file registers before any ends")

AGGS = ["count", "sum", "min", "max", "avg", "last", "len"]


def line(rng, sparse):
    kv = []
    if rng.random() > sparse:
        kv.append(("x", rng.choice(["1", "2", "5", "10", "-3", "0", "7", "abc", ""])))
    if rng.random() > sparse:
        kv.append(("y", rng.choice(["1", "4", "100", "-1", "n/a"])))
    if rng.random() > 0.2:
        kv.append(("host", rng.choice(["a", "b", "c"])))
    if rng.random() > 0.5:
        kv.append(("msg", rng.choice(["ok", "error 42", "warn", "id 7 done"])))
    return "&".join(f"{k}={v}" for k, v in kv)


def query(rng):
    sels = []
    for _ in range(rng.choice([1, 2, 3])):
        f = rng.choice(["x", "y", "host", "msg", "$m"])
        s = f"{rng.choice(AGGS)}({f})" if rng.random() < 0.85 else f
        if s not in sels:          # the same select expression twice is the recorded finding C05-duplicate-select
            sels.append(s)
    q = "select " + ",".join(sels) + " from T"
    if rng.random() < 0.4:
        conds = []
        for _ in range(rng.choice([1, 2])):
            if rng.random() < 0.5:
                conds.append(f"{rng.choice(['x', 'y'])} {rng.choice(['==', '!=', '<', '<=', '>', '>='])} {rng.choice(['0', '2', '5', 'y'])}")
            else:
                conds.append(f"{rng.choice(['host', 'msg'])} {rng.choice(['eq', 'ne', 'contains', 'lacks', 'hasprefix', 'nhasprefix', 'hassuffix', 'nhassuffix'])} \"{rng.choice(['a', 'ok', 'err', 'done', 'b'])}\"")
        q += " where " + " and ".join(conds)
    if rng.random() < 0.3:
        q += " set $m = " + rng.choice(["maskdigits(msg)", "host", "x"])
    g = rng.choice([None, "host", "host,msg", "msg", "$m", "x"])
    if g:
        q += " group by " + g
    if rng.random() < 0.3:
        # order / limit only shape the final report: every partial result still has to carry all its groups
        q += f" {rng.choice(['order', 'rorder'])} by {sels[0]} limit {rng.choice([1, 1, 2, 3])}"
    return q


def _gen_hand(rng, budget, tier):
    for _ in range(budget):
        sparse = rng.choice([0.0, 0.2, 0.5, 0.8])
        n = rng.choice([0, 1, 2, 5, 10, 40])
        lines = [line(rng, sparse) for _ in range(n)]
        # partition into servers x intervals
        ns = rng.choice([1, 1, 2, 3, 4])
        servers = [[[] for _ in range(rng.choice([1, 1, 2, 3]))] for _ in range(ns)]
        for l in lines:
            sv = rng.choice(servers)
            rng.choice(sv).append(l)
        fmt = rng.choice(["default", "default", "generickv", "csv"])
        if fmt == "csv":
            # one file per server: all intervals of a server are one stream, the header comes first
            pass
        enc = "/".join(";".join(",".join(hexs(l.encode()) for l in iv) if iv else "-" for iv in sv) for sv in servers)
        q = query(rng) + ("" if fmt == "default" else " logformat " + fmt)
        # one case in six runs the real aggregator goroutines (Start / aggregateAndSerialize / interim Serialize) on the server side
        how = rng.random()
        yield f"c05.agg {hexs(q.encode())} {fmt} {enc}" + (" real" if how < 0.17 else "")


from props import c15 as _c15


def model_case(case, impl):
    if case.startswith("c15.write"):
        return _c15.model_case(case, impl)
    return case


def impl_view(case, impl):
    if case.startswith("c15.write"):
        return _c15.impl_view(case, impl)
    return impl.split("#", 1)[0]


def gen(rng, budget, tier):
    # tie G: the translated aggregateset.go (Aggregate, Merge, helpers) and the real functions on the same scripts
    from props import gen_tie
    yield from gen_tie.gen_agg(rng, 400 if tier == "quick" else 20000)
    yield from _gen_hand(rng, budget, tier)
    # the final result is what the outfile holds: interim report, then a (shorter) final one over a stale staging file;
    # the write path of internal/mapr/groupsetresult.go under strace, as in the C15 check (no kill cases here)
    import random
    sub = random.Random(rng.getrandbits(32))
    n = 0
    for c in _c15.gen(sub, 400, tier):
        f = c.split(" ")
        if len(f) == 6 and f[5] == "0" and f[3] == "1" and "/" in f[4]:
            yield c
            n += 1
            if n >= (10 if tier == "quick" else 200):
                break


def _gen_ordered(rng, n):
    """the final report: many groups with mostly different order keys, every ordering clause"""
    for _ in range(n):
        hosts = rng.sample("abcdefgh", rng.choice([2, 3, 5, 8]))
        lines = []
        for h in hosts:
            for _ in range(rng.choice([1, 1, 2, 4])):
                lines.append(f"host={h}&x={rng.choice([rng.randrange(-50, 500), rng.randrange(0, 12)])}&msg={rng.choice(['3', '14', '-2', 'ok', '7'])}")
        rng.shuffle(lines)
        ns = rng.choice([1, 2, 3])
        servers = [[[] for _ in range(rng.choice([1, 2]))] for _ in range(ns)]
        for l in lines:
            rng.choice(rng.choice(servers)).append(l)
        enc = "/".join(";".join(",".join(hexs(l.encode()) for l in iv) if iv else "-" for iv in sv) for sv in servers)
        key = rng.choice(["sum(x)", "avg(x)", "max(x)", "min(x)", "count(x)", "last(msg)", "len(msg)", "last(x)"])
        others = rng.sample(["host", "count(host)", "sum(x)", "avg(x)", "last(msg)"], rng.choice([0, 1, 2]))
        sels = [key] + [o for o in others if o != key]
        rng.shuffle(sels)
        q = f"select {','.join(sels)} from T group by host {rng.choice(['order', 'rorder'])} by {key}"
        if rng.random() < 0.4:
            q += f" limit {rng.choice([0, 1, 2, 3, 10])}"
        fmt = rng.choice(["default", "generickv"])
        q += "" if fmt == "default" else " logformat " + fmt
        yield f"c05.agg {hexs(q.encode())} {fmt} {enc}"


_gen_without_ordered = gen


def gen(rng, budget, tier):
    yield from _gen_without_ordered(rng, budget, tier)
    # added last: earlier streams keep their cases (see DESIGN, RNG drift)
    yield from _gen_ordered(rng, 150 if tier == "quick" else 5000)
    # the partial results over the wire: framed by the real server handler into one reused read buffer of k bytes,
    # reassembled by the real client mapreduce handler
    import random
    sub = random.Random(rng.getrandbits(32))
    n = 0
    for c in _gen_hand(sub, 4000, tier):
        if len(c.split(" ")) == 4 and c.split(" ")[3] != "-":
            yield c + f" wire{sub.choice([1, 7, 16, 33, 64, 4096])}"
            n += 1
            if n >= (150 if tier == "quick" else 5000):
                break
    # seeded round 6: the server-side aggregator with interim serialisations (the 'M' scripts of the C06 check): every line
    # of every file must be in what the server hands out, whatever is in flight when the last file ends
    from props import c06 as _c06
    sub2 = random.Random(rng.getrandbits(32))
    yield "c06.interim 300 5"
    yield "c06.interim 40 0"
    k = 0
    yield "c06.fifo 4 M,C0,C1,C2,C3,P0,P3,P2,P3,P0,P2,P1,P1,P0,P2,P0,P0,P2,X2,P3,P0,P1,X3,P1,X0,P1,X1"
    yield "c06.fifo 3 M,C0,C1,C2,P0,P1,P2,P0,P1,P2,P0,P1,P2,P0,P1,P2,X0,P1,P2,X1,P2,P2,X2"
    for c in _c06._gen_c06(sub2, 800, tier):
        ops = c.split(" ")[-1].split(",")
        # only scripts in which every file's command arrives before any file ends: the others run into the recorded C06
        # finding (a file that registers after the aggregator finished), which is the C06 check's business
        firstX = min([i for i, o in enumerate(ops) if o.startswith("X")] or [len(ops)])
        lastC = max([i for i, o in enumerate(ops) if o.startswith("C")] or [0])
        if c.startswith("c06.fifo") and lastC < firstX:
            yield c
            k += 1
            if k >= (40 if tier == "quick" else 600):
                break


from props import gen_tie as _gt
CANON = dict(globals().get("CANON", {}))
CANON["gen.agg"] = _gt.canon_agg


def _c15_result_only(s):
    """C05 is about what the report holds, not about how it reaches the disk: of a c15.write observation keep the outfile's and
    the query file's final content (the order of the file operations and the staging files are C15's subject — a change that
    reorders them alarmed this check although every result was right; seeded/CROSS.txt)"""
    import re
    s = _c15.CANON["c15.write"](s)
    out, q = re.search(r"(?:^|;)(out=[^;]*)", s), re.search(r";(query=[^;]*)", s)
    if not s.startswith("ops=") or not out:
        return s
    return out.group(1) + ";" + (q.group(1) if q else "") + ";"


CANON["c15.write"] = _c15_result_only
PROJ = dict(globals().get("PROJ", {}))
PROJ["c15.write"] = _c15.PROJ["c15.write"]
