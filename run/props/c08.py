"""C08 — users read only files their permission rules allow."""
from lib import hexs

MODULE = "DtailModel.Props.C08"
# translated packages (tie G) this property's theorems rest on
GEN_UNITS = ("User",)
GROUPS = ["C08"]
LOGGER = "none"
BUDGET = {"quick": 1200, "thorough": 25000}
LEVEL_TEXT = ("Lean theorem C08_full_holds: for every rule list (prefixed or bare, allow or deny, ':' inside patterns), user, path and "
              "every file-system / regexp oracle, a file is served iff the user is a background-job user or the path resolves to a regular "
              "file whose last matching rule is an allow; tied to the code by the real HasFilePermission and real cat sessions over a "
              "directory tree with symlink chains, '..', relative paths, FIFO, directory, device, the regexp answers supplied by Go's regexp; c08.cat lets the client choose the command word and its options (serverless, plain, quiet, context options): nothing a client says about itself changes what is served; tie G: splitPermission and User.iteratePaths of internal/user/server/user.go are translated to Lean from the working tree on every run and proved to be the model's ruleBody / iterateRules over parseRule (C08_generated_rules_refine_model), hence C08_generated_iteratePaths_is_spec: the translated rule evaluation says yes exactly when every rule compiles and the last matching rule is an allow rule; the driver runs the translated iteratePaths beside the model on every case; the whole decision too: User.HasFilePermission / hasFilePermission are translated and C08_generated_decision_is_spec states the documented decision on the translated code (EvalSymlinks, Abs, ToRead, Lstat and the regexp engine as parameters); c08.perm evaluates the translated HasFilePermission on every case")
TRUSTED = ["the Go-to-Lean translator extract/translate.go and its prelude Model/GoRT.lean (regexp.Compile / MatchString are parameters; the text of a formatted error is its format string)", "Lean 4 kernel", "axioms: propext, Quot.sound, Classical.choice (at most)", "fact extractor (service user names)",
           "overlay harness + dtmodel driver + this diff",
           "modelled not verified: filepath.EvalSymlinks/Abs, os.Lstat, regexp (all oracle parameters of the theorem, answered by the real "
           "functions in the differential run), permissions.ToRead (always true unless built with linuxacl)",
           "the rule syntax [\"readfiles:\"][\"!\"]regex is read by an independent parser in the harness and the driver's spec"]
ASSUMPTIONS = ["the file system does not change between the permission check and the open (check-then-open race is outside the quantifier)"]
RULE = ("seeded rule lists from a pool (POSIX classes, prefixed/bare, allow/deny, invalid regex, catch-all) x users (ordinary, service) x "
        "paths over the tree (symlink to file/dir/link, dangling, loop, '..', relative, fifo, directory, /dev/null); ops c08.perm (real "
        "HasFilePermission) and c08.cat (real session: which file contents are served); non-trivial = a tag; unanchored rules (a literal in the middle or at the end of the path decides)")

RULES = ["^@R/logs/.*", "!^@R/secret/.*", "readfiles:^@R/.*", "readfiles:!^@R/secret/[[:alpha:]]+$", "!^@R/secret/[[:alpha:]]+$",
         "^@R/logs/[[:alnum:]]+\\.log$", "^/dev/.*", "(", "readfiles:(", ".*", "!.*", "!^@R/link", "^@R/secret/s\\.txt$",
         "readfiles:^@R/logs/sub/", "!^@R/logs/[^/]+$", "^@R/secret/[[:alpha:]]+$", "readfiles:", "!", "^@R/secret/x[[:digit:]]$",
         "!readfiles:^@R/.*", "runcommands:^@R/.*"]
PATHS = ["@R/logs/a.log", "@R/logs/b.log", "@R/logs/sub/c.log", "@R/secret/s.txt", "@R/secret/alpha", "@R/secret/x1", "@R/link-to-secret",
         "@R/dirlink/s.txt", "@R/dirlink/alpha", "@R/chain1", "@R/chain2", "@R/logs/evil.log", "@R/dangling", "@R/loop", "@R/dev", "/dev/null",
         "@R/fifo", "@R/dir", "@R/logs/../secret/s.txt", "@R/logs/../secret/alpha", "logs/a.log", "./logs/../secret/alpha", "link-to-secret",
         "@R/nonexistent", "@R/logs", "@R//logs//a.log"]
GLOBS = ["@R/logs/*.log", "@R/secret/*", "@R/*", "@R/logs/*", "@R/*/*.log", "@R/dirlink/*", "@R/logs/a.log", "@R/link-to-secret", "@R/chain1"]
USERS = [b"paul", b"paul", b"paul", b"DTAIL-SCHEDULE", b"DTAIL-CONTINUOUS", b"DTAIL-HEALTH"]


def rules_arg(rng):
    n = rng.choice([0, 1, 2, 2, 3, 4, 6])
    rs = [rng.choice(RULES) for _ in range(n)]
    return ",".join(hexs(r.encode()) for r in rs) if rs else "-"


def gen(rng, budget, tier):
    for i in range(budget):
        if rng.random() < 0.12:
            # half of the sessions choose another command word / send options of their own (serverless, plain, quiet, ...):
            # whatever the client claims about itself must not change what is served
            head = rng.choice([None, None, b"cat:serverless=true", b"grep:serverless=true:plain=true", b"cat:plain=true:quiet=true",
                               b"grep:", b"cat:serverless=true:quiet=true", b"cat:before=1:after=1", b"cat:x=y"])
            yield f"c08.cat {hexs(rng.choice(GLOBS).encode())} {rules_arg(rng)}" + (f" {hexs(head)}" if head else "")
        else:
            yield f"c08.perm {hexs(rng.choice(USERS))} {hexs(rng.choice(PATHS).encode())} {rules_arg(rng)}"
    yield from _gen_unanchored(rng, max(150, budget // 4))


# added after seeded round 6: rules that are not anchored at the start of the path (a literal somewhere in the middle or at the
# end decides), alone and mixed with anchored ones
UNANCHORED = ["\\.log$", "!\\.txt$", "!/secret/", "logs/", "readfiles:!secret", "alpha$", "!s\\.txt$", "readfiles:/sub/", "!x[[:digit:]]$",
              "[[:alpha:]]+\\.log$", "!link", "(a|b)\\.log$"]


def _gen_unanchored(rng, n):
    for _ in range(n):
        k = rng.choice([1, 2, 2, 3, 4])
        rs = [rng.choice(UNANCHORED if rng.random() < 0.7 else RULES) for _ in range(k)]
        arg = ",".join(hexs(r.encode()) for r in rs)
        if rng.random() < 0.15:
            yield f"c08.cat {hexs(rng.choice(GLOBS).encode())} {arg}"
        else:
            yield f"c08.perm {hexs(b'paul')} {hexs(rng.choice(PATHS).encode())} {arg}"


def model_case(case, impl):
    if "#" not in impl:
        return case + " -"
    return case + " " + impl.split("#", 1)[1]


def impl_view(case, impl):
    return impl.split("#", 1)[0] if "#" in impl else impl
