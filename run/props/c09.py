"""C09 — sessions are granted only to authorised keys and the fixed service users."""
from lib import hexs

MODULE = "DtailModel.Props.C09"
GROUPS = ["C09"]
LOGGER = "none"
BUDGET = {"quick": 1500, "thorough": 30000}
LEVEL_TEXT = ("Lean theorems: C09_keys_full_holds (a key is accepted iff some line of the file carries it, for every file), "
              "C09_password_decision (password logins granted exactly in the three documented cases), C09_health_only; tied to "
              "the code by running the real verifyAuthorizedKeys on generated key files (per-line oracle from ssh.ParseAuthorizedKey), "
              "the real password Callback with generated job configurations, and a real server-side health session; c09.pwseq: several password logins in a row against one server value and one job configuration (nothing a server keeps between handshakes may change a decision); c09.callback: the real PublicKeyCallback, which finds and reads the key file itself (cached copy present, a directory in its place, missing); tie G: Server.Callback and backgroundCanSSH of internal/server/server.go are translated on every run (index expressions guarded) and C09_generated_callback_grants_exactly proves that the translated callback never panics and grants exactly the three documented cases, for every configuration and every behaviour of user.New and net.LookupIP; the driver also runs the translated callback on every password case; likewise verifyAuthorizedKeys of internal/ssh/server/publickeycallback.go (unit Keys; ssh.ParseAuthorizedKey a parameter, the loop on fuel): C09_generated_key_check_accepts_exactly_listed — under the parser's contract the translated check grants exactly when some line carries the offered key; c09.keys runs the translated check beside the model")
# translated packages (tie G) this property's theorems rest on
GEN_UNITS = ("Auth", "Keys")
TRUSTED = ["Lean 4 kernel", "axioms: propext, Quot.sound, Classical.choice (at most)", "fact extractor (service user names)", "Go->Lean translator (unit Auth) with its prelude GoRT: user.New, net.LookupIP, the configured job lists and the ConnMetadata accessors are parameters of the theorem",
           "overlay harness + dtmodel driver + this diff",
           "modelled not verified: golang.org/x/crypto/ssh (signature verification of the offered key, ParseAuthorizedKey's skip-to-first-key "
           "contract — checked per line by the harness), net.LookupIP (IP literals in the differential run), byte equality of marshalled keys"]
ASSUMPTIONS = ["the SSH library calls the public-key callback only for a key the client proved possession of"]
RULE = ("seeded key files: ed25519 keys with/without options, CRLF, leading blanks and comment fields, comment / blank / white-space / "
        "garbage lines anywhere (incl. after the last key), with and without final newline, offered key listed or not; password logins for the "
        "three service users and ordinary users with job lists and allow-lists; health sessions with every command word; non-trivial = a tag; commented-out key lines (the offered key behind '# ' or '#')")


def _gen_callback(rng, n):
    """the whole public-key callback: it finds and reads the key file itself"""
    kinds = ["k", "o", "r", "x", "c", "b", "t", "g"]
    for _ in range(n):
        specs = []
        for _ in range(rng.choice([0, 1, 2, 3, 5])):
            k = rng.choice(kinds)
            specs.append(k + (str(rng.randrange(4)) if k in "korx" else ""))
        where = rng.choice(["cache", "cache", "cache", "dir", "emptydir", "missing"])
        yield f"c09.callback {where} {','.join(specs) if specs else '-'} {rng.randrange(2)} {rng.randrange(5)}"


def _gen_revoked(rng, n):
    """keys revoked by hand: the complete key line behind '# ' (h) or '#' (j) — also the offered key itself, alone or beside
    live keys; through the plain check and through the whole callback"""
    for _ in range(n):
        offered = rng.randrange(4)
        specs = [rng.choice(["h", "j"]) + str(offered if rng.random() < 0.7 else rng.randrange(4))]
        for _ in range(rng.choice([0, 1, 2, 4])):
            k = rng.choice(["k", "o", "x", "c", "b", "h", "j", "g"])
            other = rng.choice([i for i in range(4) if i != offered] if rng.random() < 0.7 else [offered])
            specs.append(k + (str(other) if k in "koxhj" else ""))
        rng.shuffle(specs)
        if rng.random() < 0.25:
            yield f"c09.callback cache {','.join(specs)} {rng.randrange(2)} {offered}"
        else:
            yield f"c09.keys {','.join(specs)} {rng.randrange(2)} {offered}"


def gen(rng, budget, tier):
    yield from _gen_main(rng, budget, tier)
    # added last: earlier streams keep their cases
    yield from _gen_callback(rng, 200 if tier == "quick" else 6000)
    # seeded round 6: commented-out key lines
    yield from _gen_revoked(rng, 200 if tier == "quick" else 4000)


def _gen_main(rng, budget, tier):
    kinds = ["k", "o", "r", "x", "c", "b", "t", "g"]
    for _ in range(budget):
        r = rng.random()
        if r < 0.6:
            n = rng.choice([0, 1, 2, 3, 5, 8])
            specs = []
            for _ in range(n):
                k = rng.choice(kinds)
                specs.append(k + (str(rng.randrange(4)) if k in "korx" else ""))
            yield f"c09.keys {','.join(specs) if specs else '-'} {rng.randrange(2)} {rng.randrange(5)}"
        elif r < 0.72:
            # one job configuration, several logins in a row against ONE server value: job names shared by the
            # schedule and the continuous list, allow lists that differ — anything a server keeps between
            # handshakes (caches keyed too coarsely, leftovers of a rejected attempt) shows here
            ips = ["10.0.0.1", "10.0.0.2", "127.0.0.1", "10.0.0.10", "10.0.0.100", "10.0.0.21", "127.0.0.10"]
            jn = ["job1", "job2", "j3"]
            jobs = []
            for _ in range(rng.choice([1, 2, 3, 4])):
                allow = "+".join(rng.sample(ips, rng.randrange(0, 3)))
                jobs.append(f"{rng.choice('SC')}:{rng.choice(jn[:rng.choice([1, 2, 3])])}:{allow}")
            atts = []
            for _ in range(rng.choice([2, 3, 4, 6])):
                user = rng.choice([b"DTAIL-SCHEDULE", b"DTAIL-CONTINUOUS", b"DTAIL-SCHEDULE", b"DTAIL-CONTINUOUS", b"DTAIL-HEALTH", b"paul"])
                pw = rng.choice([b"job1", b"job1", b"job2", b"j3", b"DTAIL-HEALTH", b""])
                atts.append(f"{hexs(user)}:{hexs(pw)}:{hexs(rng.choice(ips).encode())}")
            yield f"c09.pwseq {';'.join(jobs)} {','.join(atts)}"
        elif r < 0.9:
            names = [b"job1", b"job2", b"DTAIL-HEALTH", b""]
            ips = ["10.0.0.1", "10.0.0.2", "127.0.0.1", "10.0.0.10", "10.0.0.100", "10.0.0.21", "127.0.0.10"]
            jobs = []
            for _ in range(rng.choice([0, 1, 2, 3])):
                allow = "+".join(rng.sample(ips, rng.randrange(0, 3)))
                jobs.append(f"{rng.choice('SC')}:{rng.choice(['job1', 'job2', 'j3'])}:{allow}")
            user = rng.choice([b"DTAIL-HEALTH", b"DTAIL-SCHEDULE", b"DTAIL-CONTINUOUS", b"paul", b"dtail-health", b"root"])
            pw = rng.choice(names + [b"job1 ", b"j3", b"DTAIL-SCHEDULE"])
            yield f"c09.password {hexs(user)} {hexs(pw)} {hexs(rng.choice(ips).encode())} {';'.join(jobs) if jobs else '-'}"
        else:
            cmd = rng.choice([b"health", b"health:", b"cat /etc/passwd regex:noop ", b"cat:plain=true /etc/passwd regex:noop ",
                              b"grep /etc/shadow regex:default root", b"tail /var/log/x regex:noop ", b"map select count(x) from T",
                              b".ack close connection", b".ack", b"HEALTH", b"health x y", b"", b"health:quiet=true", b"x"])
            yield f"c09.health {hexs(cmd)}"
