"""C11 — valid queries parse to the structure they denote; invalid ones are rejected."""
from lib import hexs

MODULE = "DtailModel.Props.C11"
# translated packages (tie G) this property's checks rest on
GEN_UNITS = ("MaprQuery",)
GROUPS = ["C11"]
LOGGER = "none"
BUDGET = {"quick": 4000, "thorough": 120000}
LEVEL_TEXT = ("Lean model of tokenize/tokensConsume/parseTokens/makeSelect/Where/SetConditions/NewFunctionStack with Go's "
              "indexing explicit; theorems: the parser never panics on any byte string, clause-level parse theorems and "
              "rejection theorems; tied to the code by a differential run of the real mapr.NewQuery (full dump of the "
              "parsed structure) on rendered abstract queries in every surface variation and on mutations of them; the "
              "property oracle compares the implementation's dump with the denotation of the abstract query; tie G (panic-aware): token.go, selectcondition.go, wherecondition.go (parse / fill), setcondition.go and the parser of query.go (parseTokens, parse, NewQuery) are translated to Lean from the working tree on every run with every index and slice expression guarded (a panic is a value of the translated function), and the driver evaluates the translated NewQuery beside the hand-written model on every case: three-way agreement real code = translated code = model; C11_generated_parser_never_panics / C11_generated_clause_parsers_never_panic: proved about the translated functions themselves (Lemmas/GenQuery.lean: loop rules with invariants and a decreasing measure, the guards discharged from the length checks the code makes)")
TRUSTED = ["the Go-to-Lean translator extract/translate.go in panic-aware mode and its prelude Model/GoRT.lean (goInRange / goSliceOk state when Go's x[i] / x[lo:hi] panic, for strings and for slices that were never longer than they are; for-cond loops run on fuel; strings.ToLower / ToUpper / EqualFold as far as comparisons with ASCII words go; strconv and funcs.NewFunctionStack are parameters)", "Lean 4 kernel", "axioms: propext, Quot.sound, Classical.choice (at most)", "overlay harness + dtmodel driver + this diff",
           "modelled not verified: strconv.ParseFloat (oracle table computed by the real function), unicode.IsSpace / ToLower / ToUpper "
           "(byte-level model: ASCII plus the runes that matter for keyword comparison; table names are kept ASCII)",
           "the denotation of an abstract query is computed by the generator (Python), independent of model and implementation"]
ASSUMPTIONS = ["quoted strings are non-empty and contain no '\"' (the grammar has no escape); an empty quoted string is dropped by the tokenizer (excluded, noted in DESIGN)"]
RULE = ("abstract queries (select list with aggregations, table, where conditions of both kinds, set assignments incl. function stacks, "
        "group/order/rorder, interval, limit, outfile [append], logformat) rendered with random clause order, keyword case, comma/space "
        "style, white-space kinds (incl. Unicode spaces), quoted strings, back-quoted keyword-named fields; plus malformed classes and "
        "token/byte mutations; non-trivial = the model's parse took a tagged branch; distinct by query text")

KEYWORDS = ["select", "from", "where", "set", "group", "rorder", "order", "interval", "limit", "outfile", "logformat"]
FIELDS = ["x", "y", "foo", "$hostname", "$time", "responsecode", "a.b", "f_1", "limit", "from", "order", "café", "$x"]
AGGS = {"count": 1, "sum": 2, "min": 3, "max": 4, "last": 5, "avg": 6, "len": 7}
FLOPS = {"==": 10, "!=": 11, "<": 12, "<=": 13, "=<": 13, ">": 14, ">=": 15, "=>": 15}
STROPS = {"eq": 1, "ne": 2, "contains": 3, "lacks": 4, "ncontains": 4, "hasprefix": 5, "nhasprefix": 6, "hassuffix": 7, "nhassuffix": 8}
NUMS = ["0", "1", "42", "-7", "3.14", "0.5", "1e3", "100", "+5", ".5"]
STRINGS = ["foo", "a b", "x,y", "select from", "ERROR", " lead", "limit", "café", "a=b", "(x)", "1"]
SPACES = [" ", " ", " ", "  ", "\t", "\n", " ", " ", " \t "]


def hx(s):
    return s.encode().hex() if s else "-"


def gofloat(tok):
    f = float(tok)
    if f == int(f) and abs(f) < 1e15:
        return str(int(f))
    return repr(f)


def bare(field):
    return "`%s`" % field if field.lower() in KEYWORDS else field


def kw(rng, w):
    return rng.choice([w, w.upper(), w.capitalize(), "".join(rng.choice([c, c.upper()]) for c in w)])


def sep(rng):
    return rng.choice([",", ", ", " ", " , ", "\t"])


def sp(rng):
    return rng.choice(SPACES)


def quoted(s):
    return '"%s"' % s


def make(rng):
    """returns (query text, expected dump)"""
    nsel = rng.choice([1, 1, 2, 3])
    sels = []
    for _ in range(nsel):
        f = rng.choice(FIELDS)
        if rng.random() < 0.6:
            a = rng.choice(list(AGGS))
            sels.append((f, f"{a}({f})", AGGS[a], f"{a}({f})"))
        else:
            sels.append((f, f, 5, bare(f)))
    clauses = {"select": kw(rng, "select") + sp(rng) + sep(rng).join(s[3] for s in sels)}
    exp = {"sel": ",".join(f"{hx(s[0])}|{hx(s[1])}|{s[2]}" for s in sels), "table": "-", "where": "none", "set": "none",
           "group": hx(sels[0][0]), "order": "-", "rev": "false", "key": "-", "interval": "5", "limit": "-1",
           "outfile": "none", "logformat": "-"}
    if rng.random() < 0.8:
        t = rng.choice(["stats", "STATS", "Warnings", "t1", ".", "*", "a-b"])
        clauses["from"] = kw(rng, "from") + sp(rng) + t
        exp["table"] = hx(t.upper())
    if rng.random() < 0.6:
        conds, dump = [], []
        for _ in range(rng.choice([1, 1, 2, 3])):
            if rng.random() < 0.5:
                op = rng.choice(list(FLOPS))
                sides = []
                for _ in range(2):
                    if rng.random() < 0.5:
                        n = rng.choice(NUMS)
                        sides.append((n, 3, n, hx(gofloat(n))))
                    else:
                        f = rng.choice(FIELDS)
                        sides.append((bare(f), 1, f, "-"))
                conds.append(f"{sides[0][0]}{sp(rng)}{op}{sp(rng)}{sides[1][0]}")
                dump.append(f"{sides[0][1]}|{hx(sides[0][2])}|{sides[0][3]}|{FLOPS[op]}|{sides[1][1]}|{hx(sides[1][2])}|{sides[1][3]}")
            else:
                op = rng.choice(list(STROPS))
                sides = []
                for _ in range(2):
                    if rng.random() < 0.5:
                        s = rng.choice(STRINGS)
                        sides.append((quoted(s), 2, s))
                    else:
                        f = rng.choice(FIELDS)
                        sides.append((bare(f), 1, f))
                conds.append(f"{sides[0][0]}{sp(rng)}{kw(rng, op)}{sp(rng)}{sides[1][0]}")
                dump.append(f"{sides[0][1]}|{hx(sides[0][2])}|-|{STROPS[op]}|{sides[1][1]}|{hx(sides[1][2])}|-")
        glue = rng.choice([" and ", " AND ", ", ", " ", " And "])
        clauses["where"] = kw(rng, "where") + sp(rng) + glue.join(conds)
        exp["where"] = ",".join(dump)
    if rng.random() < 0.4:
        sets, dump = [], []
        for _ in range(rng.choice([1, 1, 2])):
            var = rng.choice(["$x", "$mask", "$h"])
            r = rng.random()
            if r < 0.3:
                f = rng.choice(FIELDS)
                sets.append(f"{var} = {bare(f)}")
                dump.append(f"{hx(var)}|1|{hx(f)}|-|-")
            elif r < 0.5:
                n = rng.choice(NUMS)
                sets.append(f"{var} = {n}")
                dump.append(f"{hx(var)}|3|{hx(n)}|{hx(gofloat(n))}|-")
            elif r < 0.85:
                f = rng.choice([x for x in FIELDS if x.lower() not in KEYWORDS])
                fs = rng.choice([["md5sum"], ["maskdigits"], ["maskdigits", "md5sum"], ["md5sum", "md5sum"]])
                text = f
                for name in reversed(fs):
                    text = f"{name}({text})"
                sets.append(f"{var} = {text}")
                dump.append(f"{hx(var)}|4|{hx(f)}|-|{hx('+'.join(fs))}")
            else:
                s = rng.choice([x for x in STRINGS if not x.endswith(")") and x != "1"])
                sets.append(f"{var} = {quoted(s)}")
                dump.append(f"{hx(var)}|1|{hx(s)}|-|-")
        clauses["set"] = kw(rng, "set") + sp(rng) + rng.choice([", ", " ", ","]).join(sets)
        exp["set"] = ",".join(dump)
    if rng.random() < 0.6:
        gs = [rng.choice(FIELDS) for _ in range(rng.choice([1, 1, 2, 3]))]
        by = rng.choice([kw(rng, "by") + sp(rng), ""])
        clauses["group"] = kw(rng, "group") + sp(rng) + by + sep(rng).join(bare(g) for g in gs)
        exp["group"] = ",".join(hx(g) for g in gs)
        exp["key"] = hx(",".join(gs))
    if rng.random() < 0.5:
        o = rng.choice(sels)
        word = rng.choice(["order", "rorder"])
        by = rng.choice([kw(rng, "by") + sp(rng), ""])
        clauses["order"] = kw(rng, word) + sp(rng) + by + o[3]
        exp["order"] = hx(o[1])
        exp["rev"] = "true" if word == "rorder" else "false"
    if rng.random() < 0.3:
        n = rng.choice([0, 1, 10, 3600, -1])
        clauses["interval"] = kw(rng, "interval") + sp(rng) + str(n)
        exp["interval"] = str(n)
    if rng.random() < 0.3:
        n = rng.choice([0, 1, 10, 99999, -5])
        clauses["limit"] = kw(rng, "limit") + sp(rng) + str(n)
        exp["limit"] = str(n)
    if rng.random() < 0.3:
        path = rng.choice(["out.csv", "/tmp/x y.csv", "résumé.csv", "limit"])
        app = rng.random() < 0.5
        tok = quoted(path) if (" " in path or path in KEYWORDS or rng.random() < 0.3) else path
        clauses["outfile"] = kw(rng, "outfile") + sp(rng) + ("append" + sp(rng) if app else "") + tok
        exp["outfile"] = f"{hx(path)}/{'true' if app else 'false'}"
    if rng.random() < 0.3:
        lf = rng.choice(["csv", "generic", "generickv", "default", "custom1"])
        clauses["logformat"] = kw(rng, "logformat") + sp(rng) + lf
        exp["logformat"] = hx(lf)
    order = list(clauses)
    if rng.random() < 0.5:
        rng.shuffle(order)
    text = sp(rng).join(clauses[k] for k in order)
    if rng.random() < 0.2:
        text = sp(rng) + text + sp(rng)
    dump = ";".join(f"{k}={exp[k]}" for k in ["sel", "table", "where", "set", "group", "order", "rev", "key", "interval", "limit", "outfile", "logformat"])
    return text, dump


MALFORMED = ["selec a from T", "select a from", "select a from T U", "select a where x", "select a where x ~~ y", "select foo(x) from T",
             "select count(x from T", "select count(x)) from T", "select a limit x", "select a limit", "select a interval x",
             "select a order by b", "select a rorder by", "select a group", "select a group by", "select a outfile", "select a outfile a b c",
             "select a outfile APPEND x", "select a logformat", "select a set x = 1", "select a set $x == 1", "select a set $x = nope(y)",
             "select a set $x = (y)", "select a set $x", "from T", "where a == 1", "select a where 1 == \"x\"", "select a where \"s\" < 2",
             "hello", "select a set \"$x\" = 1", "select a where a eq"]


def gen(rng, budget, tier):
    for q in MALFORMED:
        yield f"c11.parse {hexs(q.encode())} {hexs(b'ERR')}"
    for q in ["", "`", "select `", "select `` from T", "select ` `", "\"", "select \"", "select a where a eq \"\"", ";", "select a,,b", "select a from T where"]:
        yield f"c11.parse {hexs(q.encode())} -"
    # every clause keyword directly followed by another clause (an empty clause body), with and without "by" / quotes
    for k1 in KEYWORDS:
        for k2 in ["limit 10", "from T", "\"\"", "\"\" limit 1", "`` from T"]:
            for by in ["", "by "]:
                yield f"c11.parse {hexs(('select a ' + k1 + ' ' + by + k2).encode())} -"
    for _ in range(budget):
        text, dump = make(rng)
        r = rng.random()
        if r < 0.7:
            yield f"c11.parse {hexs(text.encode())} {hexs(dump.encode())}"
        else:
            b = bytearray(text.encode())
            for _ in range(rng.choice([1, 1, 2, 4])):
                k = rng.randrange(len(b) + 1)
                m = rng.random()
                if m < 0.3 and b:
                    del b[min(k, len(b) - 1)]
                elif m < 0.6:
                    b[k:k] = rng.choice([b"`", b"\"", b"(", b")", b",", b" ", b"=", b"select ", b" limit ", b"\xc2\xa0", b"\xff", b"$"])
                elif b:
                    b[min(k, len(b) - 1)] = rng.randrange(256)
            yield f"c11.parse {hexs(bytes(b))} -"


def model_case(case, impl):
    if "#" not in impl:
        return case + " -"          # a panic / crash of the real parser: still compared with the model
    return case + " " + impl.rsplit("#", 1)[1]


def impl_view(case, impl):
    return impl.rsplit("#", 1)[0] if "#" in impl else impl


def _canon(s):
    # strings.ToUpper on a table name with non-ASCII or invalid UTF-8 bytes needs the Unicode tables and the
    # U+FFFD replacement, which the byte-level model does not carry: such table names are compared as a marker
    import re
    m = re.search(r"table=([0-9a-f]+)", s)
    if m and any(b >= 0x80 for b in bytes.fromhex(m.group(1))):
        return s[:m.start()] + "table=NONASCII" + s[m.end():]
    return s


CANON = {"c11.parse": _canon}
