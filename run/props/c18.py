"""C18 — server discovery yields each wanted server exactly once."""
from lib import hexs

MODULE = "DtailModel.Props.C18"
# translated packages (tie G) this property's theorems rest on
GEN_UNITS = ("Discovery",)
GROUPS = ["C18"]
BUDGET = {"quick": 600, "thorough": 12000}
LEVEL_TEXT = ("Lean theorem C18_full_holds: for every entry list, filter and index sequence Intn can deliver, the "
              "contacted servers are a permutation without repetition of the distinct wanted entries; tied to the "
              "code by running the real discovery.ServerList() with the shuffle's random indices re-derived, so the exact order is compared; c18.filter (a plugged-in discovery module supplies the list, the server argument is the /regex/ filter) and c18.reconnect (what a re-connecting client contacts over time: listed host:port addresses only); tie G: filterList, dedupList, shuffleList and ServerList of internal/discovery/discovery.go are translated to Lean from the working tree on every run and proved to be the model's filter / dedup / shuffle / serverList (C18_generated_steps_refine_model), hence C18_generated_server_list: the translated ServerList returns a permutation without repetition of the distinct wanted entries; the driver runs the translated ServerList beside the model on every case")
TRUSTED = ["Lean 4 kernel", "axioms: propext, Quot.sound, Classical.choice (at most)", "overlay harness + dtmodel driver + this diff",
           "the Go-to-Lean translator extract/translate.go and its prelude Model/GoRT.lean (total indexing: an index panic is invisible in translated code — the model's shuffle keeps it as `none`; serverListFromModule (reflection, file / comma sources) and the random source are parameters)", "modelled not verified: strings.Split, bufio.Scanner line splitting (both exercised by the differential run), math/rand (indices are inputs), Go regexp"]
ASSUMPTIONS = ["rand.Intn(n) returns an index below n"]
RULE = ("seeded lists of 0..5000 entries with duplicates, host:port forms, empty entries, server files with CRLF / "
        "missing final newline / blank lines, /regex/ arguments; non-trivial = duplicates, more than one entry, a filter or a large list")


def model_case(case, impl):
    if case.startswith("c18.reconnect"):
        return case
    if impl.count(";") < 2:
        return None
    idx, bit, _ = impl.split(";", 2)
    f = case.split(" ")
    return f"{f[0]} {f[1]} {idx} {bit}"          # for c18.filter the regex itself is not passed on: the verdicts are


def impl_view(case, impl):
    if case.startswith("c18.reconnect"):
        return impl
    return impl.split(";", 2)[2] if impl.count(";") >= 2 else impl


def _sorted(s):
    if s in ("none",) or s.startswith(("PANIC", "CRASH")):
        return s
    items = [bytes.fromhex(x) if x != "-" else b"" for x in s.split(",")]
    return ",".join(hexs(x) for x in sorted(items))


PROJ = {"c18.list": _sorted, "c18.file": _sorted, "c18.filter": _sorted}
FILTERS = [b"web", b"^web01$", b"^web01", b"web01$", b"^db", b"\\.example\\.org$", b"0[12]", b"^prod-web01$", b"", b".*", b"^$", b"(?i)WEB", b":2222$", b"^web01:2222$", b"x|db"]
FHOSTS = [b"web01", b"web010", b"web01:2222", b"prod-web01", b"prod-web01.example.org", b"xweb01x", b"db01", b"db02.example.org", b"web02", b"WEB03", b""]
HOSTS = [b"a", b"b", b"srv1", b"srv1:2222", b"srv2.example.org", b"10.0.0.1", b"10.0.0.1:22", b"", b" ", b"x y", b"H\xc3\xb6st"]


def _gen_c18(rng, budget, tier):
    for i in range(budget):
        r = rng.random()
        n = rng.choice([0, 1, 2, 3, 5, 10, 50]) if r < 0.95 else rng.choice([500, 5000])
        pool = HOSTS if n < 50 else [b"h%d" % k for k in range(max(1, n // 2))]
        items = [rng.choice(pool) for _ in range(n)]
        if rng.random() < 0.15:
            # a /regex/ filter over a list from a plugged-in discovery module: anchored literals, prefixes, suffixes
            ents = [rng.choice(FHOSTS) for _ in range(rng.choice([1, 3, 6, 12]))]
            ents = [e for e in ents if b"," not in e]
            yield "c18.filter " + hexs(b",".join(ents)) + " " + hexs(rng.choice(FILTERS))
            continue
        if rng.random() < 0.1:
            yield "c18.list " + hexs(b"/" + rng.choice([b"", b"^$", b"a", b".*", b"x|", b"^.+$"]) + b"/")
        elif rng.random() < 0.5:
            s = b",".join(items)
            if s.startswith(b"/") and s.endswith(b"/"):
                s = b"x" + s
            yield "c18.list " + hexs(s)
        else:
            items = [x.replace(b"\n", b"") for x in items]
            nl = rng.choice([b"\n", b"\n", b"\r\n"])
            c = nl.join(items) + (nl if items and rng.random() < 0.7 else b"")
            yield "c18.file " + hexs(c)


def gen(rng, budget, tier):
    # what the client contacts over time: servers in host:port form, dropped connections, re-connects (about 5 s each)
    yield "c18.reconnect 1"
    yield "c18.reconnect 3"
    yield from _gen_c18(rng, budget, tier)
