"""tie G: scripts for the Go functions that /verif/extract translates to Lean — the real function and its
translation run on the same script and must agree (this validates the translator itself)."""
from lib import hexs


def gen_stats(rng, n):
    for _ in range(n):
        ops = []
        for _ in range(rng.choice([3, 10, 40, 150, 320])):
            r = rng.random()
            if r < 0.55:
                # what the filter does per line: position, then transmittable
                ops.append("p")
                ops.append(f"x{rng.randrange(2)},{rng.choice([0, 5, 99, 100, 100, 101])},100,{rng.randrange(2)}")
            else:
                ops.append(rng.choice("pmntu"))
        yield "gen.stats " + ";".join(ops)


KEYS = [b"count(x)", b"sum($y)", b"min(v)", b"max(v)", b"last(s)", b"len(s)", b"avg(z)", b"other"]
VALUES = [b"0", b"1", b"5", b"-3", b"42", b"100", b"abc", b"", b"12x", b"7", b"-0", b"+4"]
QUERIES = [b"select count(x),sum($y),min(v),max(v),last(s),len(s),avg(z) from T group by g",
           b"select min(v),max(v) from T", b"select last(s),count(x) from T", b"select len(s),sum($y) from T",
           b"select avg(z) from T", b"select count(x),count(x) from T"]


def _ops(rng, client):
    n = rng.choice([0, 1, 2, 4, 8])
    if n == 0:
        return "-"
    out = []
    for _ in range(n):
        out.append(f"{hexs(rng.choice(KEYS))},{rng.randrange(0, 9)},{hexs(rng.choice(VALUES))},{1 if client and rng.random() < 0.5 else 0}")
    return "/".join(out)


def gen_agg(rng, n):
    for _ in range(n):
        yield f"gen.agg {_ops(rng, True)} {_ops(rng, True)} {hexs(rng.choice(QUERIES))}"


def canon_agg(s):
    if ";F=" not in s:
        return s
    head, rest = s.split(";F=", 1)
    f, v = rest.split(";V=", 1)
    return head + ";F=" + ",".join(sorted(x for x in f.split(",") if x)) + ";V=" + ",".join(sorted(x for x in v.split(",") if x))


RX = [b"a", b"ERROR", b"^ab$", b"x y", b"a  b", b" lead", b"trail ", b"", b".", b".*", b"[z-a]", b"(?i)error", b"k=v:w", b"a;b,c%d", b"caf\xc3\xa9", b"\\s+", b"regex:invert x"]
WIRES = [b"regex:default a", b"regex:invert a  b", b"regex:noop ", b"regex:noop x", b"regex a", b"regex:bogus,noop x", b"regex:default,noop ab", b"regex:invert,default a",
         b"nope:default a", b"regex:default [z-a]", b"regex:", b"", b"regex:default", b"regex:,, x", b"regex:noop,invert x", b"regexp:invert b", b"regex:default:invert a b"]
RLINES = [b"a", b"ab", b"zab", b"a  b", b"x y", b"ERROR 42", b"error", b"", b" lead", b"trail ", b"k=v:w", b"caf\xc3\xa9", b"b"]


def gen_regex(rng, n):
    for w in WIRES:
        yield f"gen.regex wire 0 {hexs(w)} {','.join(hexs(l) for l in RLINES)}"
    for _ in range(n):
        ls = rng.sample(RLINES, rng.randrange(3, len(RLINES)))
        yield f"gen.regex new {rng.randrange(2)} {hexs(rng.choice(RX))} {','.join(hexs(l) for l in ls)}"


def regex_model_case(case, impl):
    return case + " " + impl.split("#", 1)[1] if "#" in impl else None


def regex_impl_view(case, impl):
    return impl.split("#", 1)[0]
