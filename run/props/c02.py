"""C02 — every selected line is delivered before the session closes, at any pace."""

MODULE = "DtailModel.Props.C02"
# scripts with real waits: a disagreement counts only if it reproduces when re-run alone (flake policy, DESIGN 2.3)
TIMED_OPS = ("c02.session", "c02.e2e", "c02.many", "c02.eofstall", "c02.bad", "c02.long")
GROUPS = ["C02"]
BINS = True
LOGGER = "none"
JOBS = 16
BUDGET = {"quick": 70, "thorough": 900}
TECHNIQUE = "Lean 4 invariant proof over all schedules of a session LTS + scripted session traces and throttled end-to-end runs against the real code"
LEVEL_TEXT = ("Lean theorems over every schedule of the session LTS (commands, blocking readers, the 100-slot queue, any-ready-queue Read, "
              "flush, close handshake): C02_in_order_exactly_once (received ++ queued = the file's lines so far, per command, always), "
              "C02_partial (at close every line of every dispatched command has been delivered, provided no command was dispatched after the "
              "session had gone idle), C02_syn_after_lines, C02_full_false (the idle-between-commands witness); tied to the code by scripted "
              "sessions on the real ServerHandler (the harness is the consumer: reads, stalls, sends commands) replayed on the LTS, and by the "
              "real dcat binary with a throttled stdout, serverless and over SSH; C02_every_schedule_is_finite (every step decreases a measure: at most 2·lines + 2·commands + 3 steps under any schedule) and C02_ends_by_itself (an execution that cannot be continued is the closed session); further end-to-end ops: c02.many (hundreds of files in one session), c02.eofstall (the consumer stalls for 7 s exactly at the end of the file), c02.bad (files the reader cannot start on between a held-back file and files queued behind the cat limit)")
TRUSTED = ["Lean 4 kernel", "axioms: propext, Quot.sound, Classical.choice (at most)", "fact extractor (queue capacity, canSkipLines of the cat reader)",
           "overlay harness + dtmodel driver + this diff",
           "modelled not verified: goroutine scheduling and real time (the labels; the 10 ms flush polls are the flushDone label), Go channel semantics, "
           "SSH teardown order after the handshake, that the reader pushes every selected line (C01/C03)"]
ASSUMPTIONS = ["termination / exit status are observed on the end-to-end runs only (the LTS theorem is a safety property)"]
RULE = ("seeded session scripts: 1..4 commands, files of 0,1,99,100,101,250 lines, consumer pacings (fast, slow, stalls of 50..400 ms before, "
        "around and after end of file), commands sent together or after an idle session (the recorded finding); end-to-end dcat runs with a "
        "throttled pipe reader, serverless and SSH; non-trivial = multi-command / queue-full / closed / late-command tag; c02.long: single files some of whose lines are several KiB long")


def gen(rng, budget, tier):
    # the repaired flush defect and the recorded idle-between-commands finding first
    yield "c02.session 2 50 C0,T300,E"
    yield "c02.session 2 0+5 C0,I,C1,E"
    # many files in one session (the framed commands together exceed the 32 KiB transport buffers several times)
    yield f"c02.many serverless {rng.choice([350, 420, 500])} 6000 1500"
    if tier == "thorough":
        yield "c02.many ssh 400 6000 2500"
        yield "c02.many serverless 1200 9000 2500"
    # the consumer stalls for 7 s exactly at the end of the file (pipe full, one / two / three lines still to come)
    yield "c02.eofstall 1024 1 7000"
    yield "c02.eofstall 1024 3 7000"
    if tier == "thorough":
        yield "c02.eofstall 512 2 12000"
        yield "c02.eofstall 4096 1 7000"
    # seeded round 6: lines of several KiB (beyond small read buffers, below MaxLineLength) in a file that goes on behind them
    yield "c02.long 400 5000 2"
    yield f"c02.long {rng.choice([40, 150])} {rng.choice([4095, 4096, 9000, 70000])} {rng.choice([3, 7])}"
    sizes_pool = [0, 1, 5, 99, 100, 101, 250]
    for i in range(budget):
        if i % 9 == 8:
            transport = "ssh" if i % 18 == 17 else "serverless"
            files = rng.choice(["300", "1", "120", "2500+5"])
            yield f"c02.e2e {transport} {files} {rng.choice([0, 5, 20])} {rng.choice([64, 512, 4096])}"
            continue
        n = rng.choice([1, 1, 2, 3])
        # every file but the last is longer than the queue, so that no reader can finish before all commands are dispatched
        sizes = [rng.choice([101, 250]) for _ in range(n - 1)] + [rng.choice(sizes_pool)]
        ops = [f"C{k}" for k in range(n)]
        total = sum(sizes)
        r = rng.random()
        if r < 0.3:
            ops.append("E")
        elif r < 0.6:
            ops += [f"T{rng.choice([50, 150, 400])}", "E"]
        else:
            k = rng.randrange(0, total + 1)
            ops += [f"R{k}", f"T{rng.choice([50, 150, 300])}", "E"]
        yield f"c02.session {rng.choice([1, 2, 3])} {'+'.join(map(str, sizes))} {','.join(ops)}"
    # files the reader cannot start on (named *.gz, not gzip data) between a held-back first file and files queued
    # behind the cat limit (added last: earlier streams keep their cases)
    yield f"c02.bad serverless 2 4 6000 800"
    yield f"c02.bad serverless {rng.choice([1, 3])} {rng.choice([2, 5])} 6000 500"
    if tier == "thorough":
        yield "c02.bad ssh 2 4 6000 1500"
        yield "c02.bad serverless 5 8 9000 1500"


def model_case(case, impl):
    return case + " " + (impl if impl else "-")


def impl_view(case, impl):
    return impl


def batches(cases):
    # the many-files runs load the machine (hundreds of files, MB of output): not next to the timed session scripts
    heavy = ("c02.many", "c02.bad")
    return [[c for c in cases if not c.startswith(heavy)], [c for c in cases if c.startswith(heavy)]]
