#!/bin/bash
# seedconfirm.sh <worktree> <patch.diff> <demo command...> : confirm a seeded change independently:
# suite passes with the change, demonstration fails with it and passes without it.
set -u
WT=$1; PATCH=$2; shift 2
export GOFLAGS=-mod=mod GOPROXY=off GOSUMDB=off GOTOOLCHAIN=local
cd "$WT" || exit 2
git apply -R --check "$PATCH" 2>/dev/null || { git apply "$PATCH" || { echo "cannot apply"; exit 2; }; }
echo "== with change: build + suite"; go build ./... && go test -vet=off -count=1 ./... > /tmp/seedconfirm_suite.$$ 2>&1; echo "suite rc=$? ($(grep -c '^ok' /tmp/seedconfirm_suite.$$) packages ok, $(grep -c '^FAIL\|^---  FAIL' /tmp/seedconfirm_suite.$$) FAIL lines)"; rm -f /tmp/seedconfirm_suite.$$
echo "== with change: demo (expect FAIL)"; bash -c "$*" 2>&1 | tail -12; echo "demo rc=${PIPESTATUS[0]}"
git apply -R "$PATCH"
echo "== without change: demo (expect PASS)"; bash -c "$*" 2>&1 | tail -5; echo "demo rc=${PIPESTATUS[0]}"
