#!/usr/bin/env python3
"""Regenerate MANIFEST.json from the per-property runner modules (run/props/cXX.py)."""
import importlib, json, os, sys
V = os.path.dirname(os.path.dirname(os.path.abspath(__file__)))
sys.path.insert(0, f"{V}/run")
ALL = [f"C{i:02d}" for i in range(1, 19)]
checks, na = [], []
for p in ALL:
    path = f"{V}/run/props/{p.lower()}.py"
    if not os.path.exists(path):
        na.append({"property_id": p, "reason": "not yet built: the Lean model and its tie for this property are still to come (see DESIGN.md §5); nothing is claimed until the check exists"})
        continue
    P = importlib.import_module("props." + p.lower())
    checks.append({
        "property_id": p,
        "quick_cmd": f"python3 run/check.py {p} --tier quick",
        "thorough_cmd": f"python3 run/check.py {p} --tier thorough",
        "evidence_file": f"evidence/{p}.json",
        "replay_cmd_template": f"python3 run/check.py {p} --replay {{path}}",
        "engine": "lean4-model+differential",
        "level_claimed": {"category": "proof", "text": P.LEVEL_TEXT, "design_ref": f"DESIGN.md §5 {p}"},
        "level_note": "Trusted base: " + "; ".join(P.TRUSTED) + ". Assumes: " + "; ".join(P.ASSUMPTIONS),
        "technique": getattr(P, "TECHNIQUE", "Lean 4 theorems about an executable model + differential correspondence with the Go code"),
    })
m = {
    "version": 1,
    "setup_cmd": "bash run/setup.sh",
    "hooks": {
        "guard": "verif",
        "enable": "go build -tags verif -overlay /verif/build/overlay-<Cxx>.json ./cmd/verifharness (overlay adds NEW files only: cmd/verifharness/*.go and internal/<pkg>/zz_verif_*.go, all //go:build verif; /repo itself carries no hook)",
        "baseline_off_cmd": "cd /repo && go build ./... && go test -vet=off -count=1 ./...",
        "source_commits": [],
        "add_only": True,
    },
    "engines": [{"name": "lean4-model+differential", "path": "lean/ + run/ + harness/ + extract/",
                 "serves_properties": [c["property_id"] for c in checks],
                 "kind_free_text": "Lean 4 executable models + theorems (lake project lean/), tied to /repo by a go/ast fact extractor (extract/), an overlay Go harness calling the real code (harness/), and a line-protocol diff against the compiled Lean driver (run/)"}],
    "checks": checks,
    "not_applicable": na,
    "notes": "See DESIGN.md. known_findings.json lists recorded defects; seeded/ holds confirmed property-breaking changes used to test the checks.",
}
json.dump(m, open(f"{V}/MANIFEST.json", "w"), indent=1)
print("checks:", [c["property_id"] for c in checks], "n/a:", len(na))
