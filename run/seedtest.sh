#!/bin/bash
# seedtest.sh <Cxx> <patch.diff> [more check ids...] : apply a seeded change to /repo, run the quick checks, undo it.
set -u
P=$1; PATCH=$2; shift 2
cd /repo || exit 2
if ! git diff --quiet; then echo "/repo not clean"; exit 2; fi
git apply "$PATCH" || { echo "patch does not apply"; exit 2; }
for c in $P "$@"; do
  (cd /verif && timeout 1200 python3 run/check.py $c --tier quick 2>&1 | tail -4 | sed "s/^/[$c] /")
done
git -C /repo checkout -- . && git -C /repo clean -fdq && git -C /repo status --short | head -3
