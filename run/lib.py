#!/usr/bin/env python3
"""Common machinery of the /verif checks.

A check of property Cxx =
  (F) regenerate DtailModel/Generated/Facts.lean from /repo's working tree (translator tie),
  (P) build the property's Lean modules and audit the axioms of every property theorem,
  (D/T) build the overlay harness from /repo's working tree and run the correspondence:
        real code vs the executable Lean model on the same cases / scripts,
  (O) evaluate the property oracle (the specification value computed by the Lean driver) on
      the implementation's outputs.
Anything that breaks is reported as a VIOLATION with a replay file (a concrete failing
input when one is found, otherwise `no-failing-input-found`).
"""
import fcntl, hashlib, json, os, random, re, subprocess, sys, time
from concurrent.futures import ThreadPoolExecutor

V = os.path.dirname(os.path.dirname(os.path.abspath(__file__)))
REPO = os.environ.get("VERIF_REPO", "/repo")
LEAN = f"{V}/lean"
BUILD = f"{V}/build"
ALLOWED_AXIOMS = {"propext", "Classical.choice", "Quot.sound"}
FORBIDDEN = re.compile(r"\b(sorry|admit|native_decide|bv_decide|implemented_by|unsafe)\b|^\s*axiom\s|maxHeartbeats\s+0")
NCPU = os.cpu_count() or 4

GOENV = dict(os.environ, GOFLAGS="-mod=mod", GOPROXY="off", GOSUMDB="off", GOTOOLCHAIN="local",
             CGO_ENABLED=os.environ.get("CGO_ENABLED", "1"))


def sh(cmd, cwd=None, env=None, timeout=None, inp=None):
    p = subprocess.run(cmd, cwd=cwd, env=env, timeout=timeout, input=inp,
                       stdout=subprocess.PIPE, stderr=subprocess.STDOUT)
    return p.returncode, p.stdout.decode("utf-8", "replace")


class Lock:
    """serialises the build steps of concurrently running checks"""
    def __init__(self, name="lock"):
        os.makedirs(BUILD, exist_ok=True)
        self.path = f"{BUILD}/{name}"
    def __enter__(self):
        self.f = open(self.path, "w")
        fcntl.flock(self.f, fcntl.LOCK_EX)
    def __exit__(self, *a):
        fcntl.flock(self.f, fcntl.LOCK_UN)
        self.f.close()


class Failure:
    def __init__(self, kind, what, detail="", case=None):
        self.kind, self.what, self.detail, self.case = kind, what, detail, case
    def to_json(self):
        return {"kind": self.kind, "what": self.what, "detail": self.detail[-4000:], "case": self.case}


class Check:
    def __init__(self, prop, tier, seed):
        self.prop, self.tier, self.seed = prop, tier, seed
        self.t0 = time.time()
        self.failures = []          # broken proof / tie / correspondence
        self.violations = []        # concrete failing inputs (dicts)
        self.known_hits = {}        # finding id -> example case
        self.notes = []
        self.coverage = {}
        self.work = f"{V}/evidence/work/{prop}"
        os.makedirs(self.work, exist_ok=True)
        os.makedirs(f"{V}/evidence/replay", exist_ok=True)
        self.rng = random.Random(seed)
        self.known = [k for k in load_known() if k.get("property") == prop and k.get("status", "known") == "known"]
        self.gen_units = ()         # translated packages the property's theorems rest on (set by check.py from GEN_UNITS)

    # ---------------------------------------------------------------- F
    def step_facts(self):
        with Lock():
            src_m = max(os.path.getmtime(f"{V}/extract/{f}") for f in os.listdir(f"{V}/extract"))
            exe = f"{BUILD}/extract"
            if not os.path.exists(exe) or os.path.getmtime(exe) < src_m:
                rc, out = sh(["go", "build", "-o", exe, "."], cwd=f"{V}/extract", env=GOENV)
                if rc != 0:
                    raise SystemExit("cannot build the fact extractor:\n" + out)
            p = subprocess.run([exe, REPO], stdout=subprocess.PIPE, stderr=subprocess.PIPE)
            if p.returncode != 0:
                self.failures.append(Failure("facts", "fact extraction from the source failed",
                                             p.stderr.decode()))
                return False
            new = p.stdout.decode()
            path = f"{LEAN}/DtailModel/Generated/Facts.lean"
            old = open(path).read() if os.path.exists(path) else ""
            if new != old:
                changed = [l for l in new.splitlines() if l.startswith("def ") and l not in old]
                self.notes.append("facts changed: " + "; ".join(changed)[:1000])
                with open(path, "w") as f:
                    f.write(new)
            self.coverage["facts_regenerated"] = new.count("\ndef ")
            # tie G: the translated Go functions (Generated/Code.lean), one section per translated package ("unit").
            # A unit that no longer translates keeps its previous section (so that everything else still builds) and
            # is a broken tie only for the properties whose theorems rest on it (GEN_UNITS of the property).
            p = subprocess.run([exe, REPO, "code"], stdout=subprocess.PIPE, stderr=subprocess.PIPE)
            if p.returncode != 0:
                self.failures.append(Failure("translation", "the Go-to-Lean translator failed", p.stderr.decode()))
                return False
            new = p.stdout.decode()
            path = f"{LEAN}/DtailModel/Generated/Code.lean"
            old = open(path).read() if os.path.exists(path) else ""
            failed = re.findall(r"^-- UNIT (\w+) FAILED: (.*)$", new, re.M)
            for unit, msg in failed:
                m = re.search(r"namespace Dtail\.Gen\." + unit + r"\n.*?end Dtail\.Gen\." + unit + r"\n\n", old, re.S)
                if m:
                    new = re.sub(r"^-- UNIT " + unit + r" FAILED: .*\n\n", lambda _: m.group(0), new, flags=re.M)
                if unit in self.gen_units:
                    self.failures.append(Failure("translation", f"the Go-to-Lean translation of package unit {unit} failed (the source left the "
                                                 "translated subset or a translated function disappeared): " + msg, msg))
                else:
                    self.notes.append(f"translated unit {unit} no longer translates (not used by this property): {msg[:200]}")
            if new != old and not any(u in self.gen_units for u, _ in failed):
                self.notes.append("translated code changed")
            if new != old:
                with open(path, "w") as f:
                    f.write(new)
                # safety net: a unit whose translation does not compile as Lean (a construct the translator let through with a
                # meaning Lean rejects) must not take the other units, the driver and every other check with it: such a unit
                # is put back to its previous section, exactly like one that does not translate
                rc, out = sh(["lake", "build", "DtailModel.Generated.Code"], cwd=LEAN, timeout=3000)
                if rc != 0:
                    bad_lines = [int(x) for x in re.findall(r"Generated/Code\.lean:(\d+):\d+", out)]
                    spans = [(m.group(1), new.count("\n", 0, m.start()) + 1, new.count("\n", 0, m.end()) + 1)
                             for m in re.finditer(r"namespace Dtail\.Gen\.(\w+)\n.*?end Dtail\.Gen\.\1\n", new, re.S)]
                    bad_units = sorted({u for (u, a, b) in spans for l in bad_lines if a <= l <= b})
                    repaired = new
                    for unit in bad_units:
                        pat = r"namespace Dtail\.Gen\." + unit + r"\n.*?end Dtail\.Gen\." + unit + r"\n\n"
                        m = re.search(pat, old, re.S)
                        if not m:
                            continue
                        repaired = re.sub(pat, lambda _: m.group(0), repaired, flags=re.S)
                        msg = "the translation of unit %s does not compile: %s" % (unit, "; ".join(
                            l.strip() for l in out.splitlines() if "Generated/Code.lean" in l and "error" in l)[:400])
                        if unit in self.gen_units:
                            self.failures.append(Failure("translation", f"the Go-to-Lean translation of package unit {unit} failed (the "
                                                         "translated text is not accepted by Lean): " + msg, out[-3000:]))
                        else:
                            self.notes.append(f"translated unit {unit} does not compile (not used by this property): {msg[:200]}")
                    if bad_units and repaired != new:
                        new = repaired
                        with open(path, "w") as f:
                            f.write(new)
            self.coverage["functions_translated"] = len(re.findall(r"^def \S+ \(ext : Ext\)", new, re.M))
            return True

    # ---------------------------------------------------------------- P
    def step_lean(self, modules, need_driver=True):
        """build the property modules (+ driver); returns (props_ok, driver_ok)"""
        with Lock():
            ok_props = True
            rc, out = sh(["lake", "build"] + modules, cwd=LEAN, timeout=3000)
            if rc != 0:
                ok_props = False
                errs = [l for l in out.splitlines() if "error" in l.lower()]
                self.failures.append(Failure("proof", "Lean build of %s failed: %s" % (
                    ",".join(modules), "; ".join(errs[:6])), out))
            ok_driver = True
            if need_driver:
                rc, out = sh(["lake", "build", "dtmodel"], cwd=LEAN, timeout=3000)
                if rc != 0:
                    ok_driver = False
                    self.failures.append(Failure("model", "Lean model/driver no longer builds", out))
            return ok_props, ok_driver

    def step_audit(self, module, extra_sources=()):
        """#print axioms for every theorem of the property module; forbid sorry & friends"""
        rel = module.replace(".", "/") + ".lean"
        text = open(f"{LEAN}/{rel}").read()
        ns = re.findall(r"^namespace\s+(\S+)", text, re.M)
        prefix = (ns[0] + ".") if ns else ""
        names = re.findall(r"^theorem\s+([A-Za-z0-9_'.]+)", text, re.M)
        self.coverage["obligations"] = len(names)
        self.coverage["theorems"] = names
        # forbidden tokens (comments stripped) in every Lean source of the project
        bad = []
        for root, _, fs in os.walk(f"{LEAN}/DtailModel"):
            for f in fs:
                if f.endswith(".lean"):
                    src = strip_comments(open(os.path.join(root, f)).read())
                    for i, l in enumerate(src.splitlines()):
                        if FORBIDDEN.search(l):
                            bad.append(f"{f}:{i+1}: {l.strip()}")
        if bad:
            self.failures.append(Failure("audit", "forbidden construct in Lean sources", "\n".join(bad)))
        audit = f"{self.work}/Audit_{self.prop}.lean"
        with open(audit, "w") as f:
            f.write(f"import {module}\n")
            for n in names:
                f.write(f"#print axioms {prefix}{n}\n")
        with Lock():
            rc, out = sh(["lake", "env", "lean", audit], cwd=LEAN, timeout=1200)
        discharged = 0
        axioms_used = set()
        for n in names:
            m = re.search(r"'%s%s' (does not depend on any axioms|depends on axioms: \[([^\]]*)\])" %
                          (re.escape(prefix), re.escape(n)), out)
            if not m:
                self.failures.append(Failure("audit", f"theorem {n} not found by the axiom audit", out))
                continue
            ax = set(a.strip() for a in (m.group(2) or "").replace("\n", " ").split(",") if a.strip())
            axioms_used |= ax
            if ax - ALLOWED_AXIOMS:
                self.failures.append(Failure("audit", f"theorem {n} depends on {sorted(ax - ALLOWED_AXIOMS)}"))
            else:
                discharged += 1
        self.coverage["discharged"] = discharged
        self.coverage["axioms_used"] = sorted(axioms_used)
        self.coverage["checker_cmd"] = f"cd {LEAN} && lake build {module} && lake env lean <audit: #print axioms of every theorem>"
        if self.tier == "thorough":
            with Lock():
                rc, out = sh(["lake", "env", "leanchecker", module], cwd=LEAN, timeout=3000)
            self.coverage["leanchecker"] = "ok" if rc == 0 else "failed"
            if rc != 0:
                self.failures.append(Failure("audit", "leanchecker rejected " + module, out))
        return discharged == len(names) and not bad

    # ---------------------------------------------------------------- harness
    def step_harness(self, groups, bins=False):
        sys.path.insert(0, f"{V}/run")
        import mkoverlay
        with Lock():
            ov = mkoverlay.make(self.prop, groups)
            exe = f"{BUILD}/verifharness-{self.prop}"
            if os.path.exists(exe):
                os.remove(exe)          # never run a stale binary
            rc, out = sh(["go", "build", "-tags", "verif", "-overlay", ov, "-o", exe, "./cmd/verifharness"],
                         cwd=REPO, env=GOENV, timeout=1200)
            if rc != 0:
                self.failures.append(Failure("harness", "the overlay harness no longer builds against /repo "
                                             "(an accessor or API it uses changed)", out))
                return None
            if bins:
                os.makedirs(f"{BUILD}/bin", exist_ok=True)
                rc, out = sh(["go", "build", "-o", f"{BUILD}/bin/", "./cmd/..."], cwd=REPO, env=GOENV, timeout=1200)
                if rc != 0:
                    self.failures.append(Failure("harness", "/repo binaries do not build", out))
                    return None
            return exe

    # ---------------------------------------------------------------- run
    def run_impl(self, exe, cases, jobs=None, logger="stdout", timeout=600, env_extra=None):
        """run the harness over the cases (sharded); returns list of result strings.
        A crash of the harness process is attributed to the case it announced."""
        jobs = jobs or min(NCPU, max(1, len(cases) // 50))
        shards = [cases[i::jobs] for i in range(jobs)]
        env = dict(os.environ, VERIF_BIN=f"{BUILD}/bin", VERIF_WORK=self.work, GOMEMLIMIT="2GiB")
        if env_extra:
            env.update(env_extra)

        def crash_line(err):
            first = [l for l in err.splitlines() if l.startswith("panic:") or "fatal error" in l or l == "TIMEOUT"]
            return first[0] if first else (err.strip().splitlines()[-1] if err.strip() else "?")

        def crashes_alone(case):
            """re-run one case in a process of its own (with a grace period before exit, so that a
            panic in a goroutine the case left behind is still seen)"""
            try:
                p = subprocess.run([exe, logger], input=(case + "\n").encode(), stdout=subprocess.PIPE,
                                   stderr=subprocess.PIPE, env=dict(env, VERIF_GRACE_MS="600"), timeout=timeout)
            except subprocess.TimeoutExpired:
                return "TIMEOUT"
            if p.returncode != 0:
                return crash_line(p.stderr.decode("utf-8", "replace"))
            return None

        def run_shard(shard):
            results = [None] * len(shard)
            start = 0
            tried = set()
            while start < len(shard):
                inp = ("\n".join(shard[start:]) + "\n").encode()
                try:
                    p = subprocess.run([exe, logger], input=inp, stdout=subprocess.PIPE,
                                       stderr=subprocess.PIPE, env=env, timeout=timeout)
                    out, err = p.stdout.decode("utf-8", "replace"), p.stderr.decode("utf-8", "replace")
                    crashed = p.returncode != 0
                except subprocess.TimeoutExpired as e:
                    out = (e.stdout or b"").decode("utf-8", "replace")
                    err, crashed = "TIMEOUT", True
                announced = -1
                for l in out.splitlines():
                    if l.startswith("#"):
                        try:
                            announced = int(l[1:])
                        except ValueError:
                            pass
                        continue
                    k, _, r = l.partition("\t")
                    if k.isdigit() and start + int(k) < len(shard):
                        results[start + int(k)] = r
                if not crashed:
                    break
                # The process died while the announced case was running.  A panic in a goroutine that an
                # EARLIER case left behind (a reader starting late on a loaded machine) dies here too, so
                # the culprit is established by re-running the candidates alone.
                bad = start + max(announced, 0)
                if (results[bad] or "").startswith("HANG"):
                    # the harness watchdog gave up on this case and left: its result stands, go on with the next
                    start = bad + 1
                    continue
                culprit, why = bad, crash_line(err)
                if bad not in tried:
                    tried.add(bad)
                    for cand in (bad, bad - 1, bad - 2, bad - 3):
                        if cand < 0:
                            break
                        alone = crashes_alone(shard[cand])
                        if alone:
                            culprit, why = cand, alone
                            break
                results[culprit] = "CRASH " + why
                if os.environ.get("VERIF_DEBUG"):
                    print(f"[run_impl] crash: start={start} announced={announced} bad={bad} culprit={culprit} why={why}", file=sys.stderr)
                start = bad + 1 if culprit == bad else bad
            return [r if r is not None else "NO-RESULT" for r in results]

        with ThreadPoolExecutor(max_workers=jobs) as ex:
            outs = list(ex.map(run_shard, shards))
        res = [None] * len(cases)
        for j, o in enumerate(outs):
            res[j::jobs] = o
        return res

    def run_model(self, cases):
        exe = f"{LEAN}/.lake/build/bin/dtmodel"
        jobs = min(NCPU, max(1, len(cases) // 200))
        shards = [cases[i::jobs] for i in range(jobs)]

        def run_shard(shard):
            p = subprocess.run([exe], input=("\n".join(shard) + "\n").encode(), stdout=subprocess.PIPE,
                               stderr=subprocess.PIPE, timeout=3000)
            lines = p.stdout.decode("utf-8", "replace").split("\n")
            if lines and lines[-1] == "":
                lines.pop()
            if len(lines) != len(shard):
                raise SystemExit(f"model driver returned {len(lines)} lines for {len(shard)} cases: {p.stderr.decode()[:500]}")
            return lines
        with ThreadPoolExecutor(max_workers=jobs) as ex:
            outs = list(ex.map(run_shard, shards))
        res = [None] * len(cases)
        for j, o in enumerate(outs):
            res[j::jobs] = o
        return [tuple((l.split("\t") + ["-"] * 4)[:4]) for l in res]

    def compare(self, cases, impl, model, proj=None, canon=None):
        """impl = model (correspondence) and impl = spec (property oracle)"""
        proj = proj or {}
        canon = canon or {}
        tags, nontrivial = {}, set()
        mism = 0
        for c, i, (m, s, g, t) in zip(cases, impl, model):
            op = c.split(" ", 1)[0]
            if op in canon:
                i, m = canon[op](i), canon[op](m)
            for tg in t.split(","):
                if tg and tg != "-":
                    tags[tg] = tags.get(tg, 0) + 1
            if t not in ("-", ""):
                nontrivial.add(c)
            if op in proj:
                f = proj[op]
                pi = f(c, i) if f.__code__.co_argcount == 2 else f(i)
            else:
                pi = i
            spec_bad = s != "-" and pi != s
            if i != m:
                mism += 1
                if spec_bad or i.startswith(("CRASH", "PANIC", "HANG")) and not m.startswith(("CRASH", "PANIC", "HANG")):
                    self.violations.append({"case": c, "impl": i, "model": m, "spec": s, "signature": g,
                                            "why": "implementation differs from the model and violates the property oracle"})
                else:
                    self.failures.append(Failure("correspondence", f"op {op}: implementation and model disagree",
                                                 f"impl={i[:600]}\nmodel={m[:600]}\nspec={s[:600]}", case=c))
            elif spec_bad:
                k = [k for k in self.known if k.get("signature") == g]
                if g != "-" and k:
                    self.known_hits.setdefault(k[0]["id"], c)
                else:
                    self.violations.append({"case": c, "impl": i, "model": m, "spec": s, "signature": g,
                                            "why": "implementation equals the model but the property oracle fails outside every known-finding signature"})
        self.coverage["evaluations"] = self.coverage.get("evaluations", 0) + len(cases)
        self.coverage["distinct_nontrivial"] = self.coverage.get("distinct_nontrivial", 0) + len(nontrivial)
        self.coverage.setdefault("branch_tags", {})
        for k, v in tags.items():
            self.coverage["branch_tags"][k] = self.coverage["branch_tags"].get(k, 0) + v
        self.coverage["traces_validated_against_impl"] = self.coverage.get("traces_validated_against_impl", 0) + len(cases) - mism
        return mism

    # ---------------------------------------------------------------- finish
    def finish(self, level_text, trusted_base, assumptions, rule, samples):
        wall = time.time() - self.t0
        cov = self.coverage
        cov.setdefault("obligations", 0)
        cov.setdefault("discharged", 0)
        cov.setdefault("evaluations", 0)
        cov.setdefault("distinct_nontrivial", 0)
        cov["rule"] = rule
        cov["samples"] = samples[:8]
        cov["trusted_base"] = trusted_base
        cov["explanation"] = level_text
        cov["notes"] = self.notes
        cov["known_findings_hit"] = sorted(self.known_hits)
        nviol = len(self.violations) + len(self.failures)
        lines = []
        for k in self.known:
            if k["id"] in self.known_hits or k.get("always_report"):
                lines.append(f"KNOWN-FINDING: property={self.prop} {k['what']}")
        replay = None
        if self.violations or self.failures:
            v = self.violations[0] if self.violations else None
            body = {"property": self.prop, "tier": self.tier, "seed": self.seed,
                    "failing_input": v, "more_failing_inputs": self.violations[1:10],
                    "broken": [f.to_json() for f in self.failures[:10]],
                    "replay_cmd": f"python3 {V}/run/check.py {self.prop} --replay <this file>"}
            h = hashlib.sha1(json.dumps(body, sort_keys=True).encode()).hexdigest()[:10]
            replay = f"{V}/evidence/replay/{self.prop}-{h}.json"
            json.dump(body, open(replay, "w"), indent=1)
        ev = {"property_id": self.prop, "tier": self.tier, "seed": self.seed, "level": "proof",
              "coverage": cov, "assumptions": assumptions, "wall_s": round(wall, 2), "violations": nviol}
        json.dump(ev, open(f"{V}/evidence/{self.prop}.json", "w"), indent=1)
        for l in lines:
            print(l)
        print(f"[{self.prop}] tier={self.tier} seed={self.seed} theorems={cov['discharged']}/{cov['obligations']} "
              f"cases={cov['evaluations']} nontrivial={cov['distinct_nontrivial']} wall={wall:.1f}s")
        if replay:
            for f in self.failures[:5]:
                print(f"  broken[{f.kind}]: {f.what}")
            if self.violations:
                v = self.violations[0]
                print(f"  failing input: {v['case'][:300]}")
                print(f"VIOLATION property={self.prop} replay={replay}")
            else:
                print(f"VIOLATION property={self.prop} replay={replay} no-failing-input-found")
            return 1
        return 0


def strip_comments(src):
    src = re.sub(r"/-.*?-/", lambda m: "\n" * m.group(0).count("\n"), src, flags=re.S)
    return re.sub(r"--.*", "", src)


def load_known():
    p = f"{V}/known_findings.json"
    if not os.path.exists(p):
        return []
    return json.load(open(p)).get("findings", [])


def hexs(b):
    return b.hex() if b else "-"


def load_corpus(prop):
    d = f"{V}/corpus/{prop}"
    cases = []
    if os.path.isdir(d):
        for f in sorted(os.listdir(d)):
            for l in open(os.path.join(d, f)):
                l = l.rstrip("\n")
                if l and not l.startswith("#"):
                    cases.append(l)
    return cases
