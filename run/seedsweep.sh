#!/bin/bash
# seedsweep.sh : every kept seeded change against the quick check of its property; one line each.
cd /verif
for d in seeded/*/; do
  id=$(basename $d); prop=${id%%-*}
  out=$(bash run/seedtest.sh $prop /verif/${d}patch.diff 2>&1)
  if echo "$out" | grep -q "VIOLATION property=$prop"; then
    echo "$id CAUGHT $(echo "$out" | grep -o 'VIOLATION.*' | sed 's/replay=[^ ]*//' | head -1) $(echo "$out" | grep -c 'failing input') failing-input-lines"
  else
    echo "$id MISSED"; echo "$out" | tail -5
  fi
done
git -C /repo status --short
