#!/bin/bash
# parsweep.sh [K] : every kept seeded change against the quick check of its property, on K private copies of /verif and
# K worktrees of /repo in parallel (VERIF_REPO); /repo and /verif themselves are not touched.  One line per change on stdout.
K=${1:-3}
V=$(cd "$(dirname "$0")/.." && pwd)
export GOFLAGS=-mod=mod GOPROXY=off GOSUMDB=off GOTOOLCHAIN=local
ls -d ${SEEDS_DIR:-$V/seeded}/*/ | sort > /tmp/parsweep-all.txt
for i in $(seq 1 $K); do
  (
    rm -rf /tmp/vsw$i; cp -a $V /tmp/vsw$i
    git -C /repo worktree remove --force /tmp/rsw$i 2>/dev/null; rm -rf /tmp/rsw$i
    git -C /repo worktree add -q --detach /tmp/rsw$i HEAD
    export VERIF_REPO=/tmp/rsw$i
    (cd /tmp/vsw$i && bash run/setup.sh >/dev/null 2>&1)
    awk -v k=$K -v i=$i 'NR % k == i % k' /tmp/parsweep-all.txt | while read d; do
      id=$(basename $d); prop=${id%%-*}
      git -C /tmp/rsw$i apply ${d}patch.diff || { echo "$id PATCH-DOES-NOT-APPLY"; continue; }
      out=$(cd /tmp/vsw$i && timeout 1500 python3 run/check.py $prop --tier quick 2>&1 | tail -6)
      git -C /tmp/rsw$i checkout -- . ; git -C /tmp/rsw$i clean -fdq
      if echo "$out" | grep -q "VIOLATION property=$prop"; then
        echo "$id CAUGHT $(echo "$out" | grep -o 'VIOLATION.*' | sed 's/replay=[^ ]*//' | head -1) $(echo "$out" | grep -c 'failing input') failing-input-lines"
      else
        echo "$id MISSED $(echo "$out" | tail -2 | tr '\n' ' ' | cut -c1-300)"
      fi
    done
    git -C /repo worktree remove --force /tmp/rsw$i; rm -rf /tmp/vsw$i
  ) > /tmp/parsweep-$i.log 2>&1 &
done
wait
cat /tmp/parsweep-[0-9]*.log | sort
