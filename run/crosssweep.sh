#!/bin/bash
# crosssweep.sh [K] : every kept seeded change against the quick checks of the OTHER properties that share harness groups or
# translated units with its own (where an alarm would most likely be a false one), on K private copies of /verif and K
# worktrees of /repo in parallel (VERIF_REPO).  One line per (change, other property): QUIET, or ALARM with the reason —
# each alarm is then judged by hand: does the change really break that property too?
K=${1:-4}
V=$(cd "$(dirname "$0")/.." && pwd)
export GOFLAGS=-mod=mod GOPROXY=off GOSUMDB=off GOTOOLCHAIN=local
(cd $V/run && python3 - <<'P'
import importlib,sys,os,glob
sys.path.insert(0,'.')
P={}
for i in range(1,19):
    n=f"C{i:02d}"; m=importlib.import_module(f"props.c{i:02d}")
    P[n]=(set(getattr(m,'GROUPS',[n])),set(getattr(m,'GEN_UNITS',())))
seeds=os.environ.get('SEEDS_DIR') or os.path.join(os.path.dirname(os.getcwd()),'seeded')
with open('/tmp/crosssweep-all.txt','w') as f:
    for d in sorted(glob.glob(seeds+'/*/')):
        x=os.path.basename(d.rstrip('/')).split('-')[0]
        if x not in P: continue
        for y in P:
            if y!=x and (x in P[y][0] or (P[x][1]&P[y][1])):
                f.write(f"{d} {y}\n")
P
)
for i in $(seq 1 $K); do
  (
    rm -rf /tmp/vcs$i; cp -a $V /tmp/vcs$i
    git -C /repo worktree remove --force /tmp/rcs$i 2>/dev/null; rm -rf /tmp/rcs$i
    git -C /repo worktree add -q --detach /tmp/rcs$i HEAD
    export VERIF_REPO=/tmp/rcs$i
    (cd /tmp/vcs$i && bash run/setup.sh >/dev/null 2>&1)
    awk -v k=$K -v i=$i 'NR % k == i % k' /tmp/crosssweep-all.txt | while read d other; do
      id=$(basename $d)
      git -C /tmp/rcs$i apply ${d}patch.diff || { echo "$id $other PATCH-DOES-NOT-APPLY"; continue; }
      out=$(cd /tmp/vcs$i && timeout 1500 python3 run/check.py $other --tier quick 2>&1 | tail -8)
      git -C /tmp/rcs$i checkout -- . ; git -C /tmp/rcs$i clean -fdq
      if echo "$out" | grep -q "VIOLATION"; then
        echo "$id $other ALARM $(echo "$out" | grep 'broken\[' | head -2 | tr '\n' ' ' | cut -c1-400) $(echo "$out" | grep -c 'failing input') failing-input-lines"
      else
        echo "$id $other QUIET"
      fi
    done
    git -C /repo worktree remove --force /tmp/rcs$i; rm -rf /tmp/vcs$i
  ) > /tmp/crosssweep-$i.log 2>&1 &
done
wait
cat /tmp/crosssweep-[0-9]*.log | sort
