#!/bin/bash
# sweep.sh <seeds...> : every quick check once per seed (unchanged tree); prints one line per run.
cd "$(dirname "$0")/.."
for s in "$@"; do
  for c in C01 C02 C03 C04 C05 C06 C07 C08 C09 C10 C11 C12 C13 C14 C15 C16 C17 C18; do
    t0=$(date +%s)
    VERIF_SEED=$s python3 run/check.py $c --tier ${VERIF_TIER:-quick} > /tmp/sweep_$$.log 2>&1; rc=$?
    echo "seed=$s $c rc=$rc $(( $(date +%s)-t0 ))s $(grep -c KNOWN-FINDING /tmp/sweep_$$.log) known"
    if [ $rc -ne 0 ]; then sed 's/^/    /' /tmp/sweep_$$.log | tail -8; fi
  done
done
rm -f /tmp/sweep_$$.log
