//go:build verif

package main

import (
	"fmt"
	"regexp"

	"github.com/mimecast/dtail/internal/clients"
	clientHandlers "github.com/mimecast/dtail/internal/clients/handlers"
	"github.com/mimecast/dtail/internal/config"
	"github.com/mimecast/dtail/internal/lcontext"
	serverHandlers "github.com/mimecast/dtail/internal/server/handlers"
)

func init() {
	// c12.roundtrip <mode> <quiet> <plain> <before> <after> <max> <invert> <file> <pattern>
	// real client makeCommands -> real SendMessage/Read (32 KiB copy) -> real server Write with a
	// capturing callback.  Serverless is always on (the in-process client has no SSH side).
	ops["c12.roundtrip"] = func(a []string) string {
		mode := a[0]
		args := config.Args{
			Quiet: a[1] == "1", Plain: a[2] == "1", Serverless: true,
			LContext:    lcontext.LContext{BeforeContext: atoi(a[3]), AfterContext: atoi(a[4]), MaxCount: atoi(a[5])},
			RegexInvert: a[6] == "1", What: string(unhex(a[7])), RegexStr: string(unhex(a[8])),
			ConnectionsPerCPU: 1,
		}
		if _, err := regexp.Compile(args.RegexStr); err != nil {
			return "regex-error"
		}
		var commands []string
		switch mode {
		case "grep":
			c, err := clients.NewGrepClient(args)
			if err != nil {
				return "client-error"
			}
			commands = c.VerifMakeCommands()
		case "cat":
			c, err := clients.NewCatClient(args)
			if err != nil {
				return "client-error"
			}
			commands = c.VerifMakeCommands()
		default:
			c, err := clients.NewTailClient(args)
			if err != nil {
				return "client-error"
			}
			commands = c.VerifMakeCommands()
		}
		ch := clientHandlers.NewClientHandler("vserver")
		sh := newServerHandler()
		var cmds []serverHandlers.VerifCommand
		sh.VerifCapture(&cmds)
		go func() {
			for range sh.VerifC10ServerMessages() {
			}
		}()
		for _, command := range commands {
			done := make(chan struct{})
			go func() {
				p := make([]byte, 32*1024) // io.Copy's buffer
				n, _ := ch.Read(p)
				sh.Write(p[:n])
				close(done)
			}()
			if err := ch.SendMessage(command); err != nil {
				return "send-error"
			}
			<-done
		}
		q, p, s := sh.VerifC10Modes()
		sh.Shutdown()
		ch.Shutdown()
		return fmt.Sprintf("%s;modes=%v,%v,%v", renderCaptured(cmds), q, p, s)
	}
}
