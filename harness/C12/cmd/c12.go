//go:build verif

package main

import (
	"fmt"
	"regexp"
	"strings"

	"github.com/mimecast/dtail/internal/clients"
	clientHandlers "github.com/mimecast/dtail/internal/clients/handlers"
	"github.com/mimecast/dtail/internal/config"
	"github.com/mimecast/dtail/internal/lcontext"
	"github.com/mimecast/dtail/internal/regex"
	serverHandlers "github.com/mimecast/dtail/internal/server/handlers"
)

func init() {
	// c12.roundtrip <mode> <quiet> <plain> <before> <after> <max> <invert> <file> <pattern>
	// real client makeCommands -> real SendMessage/Read (32 KiB copy) -> real server Write with a
	// capturing callback.  Serverless is always on (the in-process client has no SSH side).
	ops["c12.roundtrip"] = func(a []string) string {
		mode := a[0]
		args := config.Args{
			Quiet: a[1] == "1", Plain: a[2] == "1", Serverless: true,
			LContext:    lcontext.LContext{BeforeContext: atoi(a[3]), AfterContext: atoi(a[4]), MaxCount: atoi(a[5])},
			RegexInvert: a[6] == "1", What: string(unhex(a[7])), RegexStr: string(unhex(a[8])),
			ConnectionsPerCPU: 1,
		}
		if _, err := regexp.Compile(args.RegexStr); err != nil {
			return "regex-error"
		}
		var commands []string
		switch mode {
		case "grep":
			c, err := clients.NewGrepClient(args)
			if err != nil {
				return "client-error"
			}
			commands = c.VerifMakeCommands()
		case "cat":
			c, err := clients.NewCatClient(args)
			if err != nil {
				return "client-error"
			}
			commands = c.VerifMakeCommands()
		default:
			c, err := clients.NewTailClient(args)
			if err != nil {
				return "client-error"
			}
			commands = c.VerifMakeCommands()
		}
		ch := clientHandlers.NewClientHandler("vserver")
		sh := newServerHandler()
		var cmds []serverHandlers.VerifCommand
		sh.VerifCapture(&cmds)
		go func() {
			for range sh.VerifC10ServerMessages() {
			}
		}()
		for _, command := range commands {
			done := make(chan struct{})
			go func() {
				p := make([]byte, 32*1024) // io.Copy's buffer
				n, _ := ch.Read(p)
				sh.Write(p[:n])
				close(done)
			}()
			if err := ch.SendMessage(command); err != nil {
				return "send-error"
			}
			<-done
		}
		q, p, s := sh.VerifC10Modes()
		sh.Shutdown()
		ch.Shutdown()
		return fmt.Sprintf("%s;modes=%v,%v,%v", renderCaptured(cmds), q, p, s)
	}

	// c12.select <lines: hex,hex,..> <requests: inv:patternhex;...>
	// several requests decoded in ONE process (as a server does for its sessions): for each, the client
	// builds its regex, serialises it, the server deserialises it; only after ALL are decoded is every
	// retained filter evaluated on the sample lines.  Output: raw RE2 verdicts ; client bits , server bits.
	ops["c12.select"] = func(a []string) string {
		var lines [][]byte
		for _, l := range strings.Split(a[0], ",") {
			lines = append(lines, unhex(l))
		}
		type pair struct {
			cl, sv regex.Regex
			raw    *regexp.Regexp
			bad    string
		}
		var ps []pair
		for _, r := range strings.Split(a[1], ";") {
			f := strings.SplitN(r, ":", 2)
			pat := string(unhex(f[1]))
			raw, err := regexp.Compile(pat)
			if err != nil {
				ps = append(ps, pair{bad: "E"})
				continue
			}
			flag := regex.Default
			if f[0] == "1" {
				flag = regex.Invert
			}
			cl, err := regex.New(pat, flag)
			if err != nil {
				ps = append(ps, pair{bad: "client-error"})
				continue
			}
			ser, err := cl.Serialize()
			if err != nil {
				ps = append(ps, pair{bad: "serialize-error"})
				continue
			}
			sv, err := regex.Deserialize(ser)
			if err != nil {
				ps = append(ps, pair{bad: "deserialize-error"})
				continue
			}
			ps = append(ps, pair{cl: cl, sv: sv, raw: raw})
		}
		bits := func(m func([]byte) bool) string {
			var sb strings.Builder
			for _, l := range lines {
				if m(l) {
					sb.WriteByte('1')
				} else {
					sb.WriteByte('0')
				}
			}
			if sb.Len() == 0 {
				return "-"
			}
			return sb.String()
		}
		var raws, acts []string
		for _, p := range ps {
			if p.bad != "" {
				raws = append(raws, p.bad)
				acts = append(acts, p.bad)
				continue
			}
			raws = append(raws, bits(p.raw.Match))
			acts = append(acts, bits(p.cl.Match)+","+bits(p.sv.Match))
		}
		return strings.Join(raws, "|") + ";" + strings.Join(acts, "|")
	}
}
