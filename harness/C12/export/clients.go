//go:build verif

package clients

// Accessors for the /verif harness (C12): the commands a client would send.

func (c GrepClient) VerifMakeCommands() []string { return c.makeCommands() }
func (c CatClient) VerifMakeCommands() []string  { return c.makeCommands() }
func (c TailClient) VerifMakeCommands() []string { return c.makeCommands() }
