//go:build verif

package main

import (
	"context"
	"fmt"
	"os"
	"path/filepath"
	"strings"
	"sync/atomic"
	"syscall"
	"time"

	serverHandlers "github.com/mimecast/dtail/internal/server/handlers"
	user "github.com/mimecast/dtail/internal/user/server"
)

type c13read struct {
	cancel  context.CancelFunc
	fifo    string
	writer  *os.File
	done    int32
	started bool
	probe   int32 // the highest probe number whose line this follow delivered
}

func init() {
	// c13.script <cap> <ops: S<i> start read i | C<i> cancel its context | F<i> let its file end>
	// Every read is a real readCommand.read on a FIFO (so a read that holds a slot stays in the
	// file until the harness closes the writer).  After every op the limiter length and the
	// number of returned reads are recorded.
	ops["c13.script"] = func(a []string) string {
		cap_ := atoi(a[0])
		dir, err := os.MkdirTemp(os.Getenv("VERIF_WORK"), "c13-")
		if err != nil {
			panic(err)
		}
		defer os.RemoveAll(dir)
		limiter := make(chan struct{}, cap_)
		other := make(chan struct{}, 4)
		reads := map[int]*c13read{}
		var obs []string
		settle := func() {
			// quiescence: the limiter length must be stable for a few polls
			last, stable := -1, 0
			for i := 0; i < 200 && stable < 4; i++ {
				time.Sleep(3 * time.Millisecond)
				if l := len(limiter); l == last {
					stable++
				} else {
					last, stable = l, 0
				}
			}
		}
		for _, op := range strings.Fields(strings.ReplaceAll(a[1], ",", " ")) {
			i := atoi(op[1:])
			switch op[0] {
			case 'S':
				fifo := filepath.Join(dir, fmt.Sprintf("f%d", i))
				if err := syscall.Mkfifo(fifo, 0o644); err != nil {
					panic(err)
				}
				// keep a writer open so that the reader's open() returns and it blocks in read()
				w, err := os.OpenFile(fifo, os.O_RDWR, 0)
				if err != nil {
					panic(err)
				}
				ctx, cancel := context.WithCancel(context.Background())
				r := &c13read{cancel: cancel, fifo: fifo, writer: w, started: true}
				reads[i] = r
				u, _ := user.New("verif", "local")
				h := serverHandlers.NewServerHandler(u, limiter, other)
				go func() {
					h.VerifC13Read(ctx, fifo, "f", false)
					atomic.StoreInt32(&r.done, 1)
				}()
			case 'D':
				// dead on arrival: the session's context is cancelled before the read starts; the file is an
				// empty regular file.  Whether the first select takes the slot or sees Done, the read is over
				// at once and must hold nothing afterwards.
				path := filepath.Join(dir, fmt.Sprintf("f%d", i))
				os.WriteFile(path, nil, 0o644)
				ctx, cancel := context.WithCancel(context.Background())
				cancel()
				r := &c13read{cancel: cancel, fifo: path, started: true}
				reads[i] = r
				u, _ := user.New("verif", "local")
				h := serverHandlers.NewServerHandler(u, limiter, other)
				go func() {
					h.VerifC13Read(ctx, path, "f", false)
					atomic.StoreInt32(&r.done, 1)
				}()
			case 'C':
				if r := reads[i]; r != nil {
					r.cancel()
				}
			case 'F':
				if r := reads[i]; r != nil && r.writer != nil {
					// a reader that has not opened the file yet must find an empty regular file
					// (opening a FIFO without a writer would block), one that has it open gets EOF
					tmp := r.fifo + ".empty"
					os.WriteFile(tmp, nil, 0o644)
					os.Rename(tmp, r.fifo)
					r.writer.Close()
					r.writer = nil
				}
			}
			settle()
			returned := 0
			for _, r := range reads {
				if atomic.LoadInt32(&r.done) == 1 {
					returned++
				}
			}
			// files actually being read: descriptors open on the FIFOs, minus the harness' own writers
			reading := 0
			if ents, err := os.ReadDir("/proc/self/fd"); err == nil {
				for _, e := range ents {
					if t, err := os.Readlink("/proc/self/fd/" + e.Name()); err == nil && strings.HasPrefix(t, dir+"/") {
						reading++
					}
				}
			}
			for _, r := range reads {
				if r.writer != nil {
					reading--
				}
			}
			obs = append(obs, fmt.Sprintf("%d/%d/%d", len(limiter), returned, reading))
		}
		// clean up: end every read
		for _, r := range reads {
			r.cancel()
			if r.writer != nil {
				tmp := r.fifo + ".empty"
				os.WriteFile(tmp, nil, 0o644)
				os.Rename(tmp, r.fifo)
				r.writer.Close()
			}
		}
		settle()
		return strings.Join(obs, ",") + ";final=" + fmt.Sprint(len(limiter))
	}

	// c13.tail <cap> <ops: S<i> follow file i | X<i> truncate file i | W<ms> wait | C<i> cancel>
	// Follows on regular files against the TAIL limiter: a truncated file makes the reader return and
	// readCommand.read re-read it after 2 s (the retry loop).  After every op the limiter length and the
	// number of returned reads are recorded; a watcher samples /proc/self/fd every 2 ms for the largest
	// number of test files open at once.
	ops["c13.tail"] = func(a []string) string {
		cap_ := atoi(a[0])
		dir, err := os.MkdirTemp(os.Getenv("VERIF_WORK"), "c13t-")
		if err != nil {
			panic(err)
		}
		defer os.RemoveAll(dir)
		limiter := make(chan struct{}, cap_)
		other := make(chan struct{}, 4)
		reads := map[int]*c13read{}
		var obs []string
		var maxReading int32
		var probeNo, maxActive int32
		stop := make(chan struct{})
		go func() {
			for {
				select {
				case <-stop:
					return
				default:
				}
				// distinct test FILES open (the truncation check opens the followed file a second time)
				open := map[string]bool{}
				if ents, err := os.ReadDir("/proc/self/fd"); err == nil {
					for _, e := range ents {
						if t, err := os.Readlink("/proc/self/fd/" + e.Name()); err == nil && strings.HasPrefix(t, dir+"/") {
							open[t] = true
						}
					}
				}
				n := int32(len(open))
				if n > atomic.LoadInt32(&maxReading) {
					atomic.StoreInt32(&maxReading, n)
				}
				time.Sleep(2 * time.Millisecond)
			}
		}()
		settle := func() {
			last, stable := -1, 0
			for i := 0; i < 200 && stable < 6; i++ {
				time.Sleep(3 * time.Millisecond)
				if l := len(limiter); l == last {
					stable++
				} else {
					last, stable = l, 0
				}
			}
		}
		for _, op := range strings.Fields(strings.ReplaceAll(a[1], ",", " ")) {
			i := atoi(op[1:])
			switch op[0] {
			case 'S':
				path := filepath.Join(dir, fmt.Sprintf("t%d.log", i))
				os.WriteFile(path, []byte(strings.Repeat("some line of a log file\n", 20)), 0o644)
				ctx, cancel := context.WithCancel(context.Background())
				r := &c13read{cancel: cancel, fifo: path, started: true}
				reads[i] = r
				u, _ := user.New("verif", "local")
				h := serverHandlers.NewServerHandler(u, other, limiter)
				go func() {
					for l := range h.VerifC13Lines() {
						c := l.Content.String()
						if strings.HasPrefix(c, "probe ") {
							k := int32(atoi(strings.TrimSpace(c[6:])))
							if k > atomic.LoadInt32(&r.probe) {
								atomic.StoreInt32(&r.probe, k)
							}
						}
					}
				}()
				go func() {
					h.VerifC13Read(ctx, path, "t", true)
					atomic.StoreInt32(&r.done, 1)
				}()
			case 'X':
				if r := reads[i]; r != nil {
					os.Truncate(r.fifo, 0)
				}
			case 'W':
				time.Sleep(time.Duration(i) * time.Millisecond)
			case 'C':
				if r := reads[i]; r != nil {
					r.cancel()
					// a cancelled follow returns at once when it waits or reads, and after at most 2 s when it
					// sits in the retry sleep: observe at quiescence
					for k := 0; k < 500 && atomic.LoadInt32(&r.done) != 1; k++ {
						time.Sleep(10 * time.Millisecond)
					}
				}
			}
			settle()
			returned := 0
			for _, r := range reads {
				if atomic.LoadInt32(&r.done) == 1 {
					returned++
				}
			}
			obs = append(obs, fmt.Sprintf("%d/%d", len(limiter), returned))
			// which follows are really following?  Append a numbered probe line to every file and see whose
			// arrives: a follow that holds a slot and reads delivers it within its 100 ms poll, a queued one
			// (or one in its retry sleep) does not.
			probeNo++
			for _, r := range reads {
				if f, err := os.OpenFile(r.fifo, os.O_APPEND|os.O_WRONLY, 0); err == nil {
					fmt.Fprintf(f, "probe %d\n", probeNo)
					f.Close()
				}
			}
			time.Sleep(350 * time.Millisecond)
			active := int32(0)
			for _, r := range reads {
				if atomic.LoadInt32(&r.probe) == probeNo {
					active++
				}
			}
			if active > maxActive {
				maxActive = active
			}
		}
		for _, r := range reads {
			r.cancel()
		}
		// a cancelled follow returns within its poll interval; one in the 2 s retry sleep after it
		deadline := time.Now().Add(4 * time.Second)
		for time.Now().Before(deadline) {
			all := true
			for _, r := range reads {
				if atomic.LoadInt32(&r.done) != 1 {
					all = false
				}
			}
			if all {
				break
			}
			time.Sleep(10 * time.Millisecond)
		}
		settle()
		close(stop)
		return strings.Join(obs, ",") + ";final=" + fmt.Sprint(len(limiter)) + ";maxreading=" + fmt.Sprint(maxActive) + "," + fmt.Sprint(atomic.LoadInt32(&maxReading))
	}
}
