//go:build verif

package main

import (
	"context"
	"fmt"
	"os"
	"path/filepath"
	"strings"
	"sync/atomic"
	"syscall"
	"time"

	serverHandlers "github.com/mimecast/dtail/internal/server/handlers"
	user "github.com/mimecast/dtail/internal/user/server"
)

type c13read struct {
	cancel  context.CancelFunc
	fifo    string
	writer  *os.File
	done    int32
	started bool
}

func init() {
	// c13.script <cap> <ops: S<i> start read i | C<i> cancel its context | F<i> let its file end>
	// Every read is a real readCommand.read on a FIFO (so a read that holds a slot stays in the
	// file until the harness closes the writer).  After every op the limiter length and the
	// number of returned reads are recorded.
	ops["c13.script"] = func(a []string) string {
		cap_ := atoi(a[0])
		dir, err := os.MkdirTemp(os.Getenv("VERIF_WORK"), "c13-")
		if err != nil {
			panic(err)
		}
		defer os.RemoveAll(dir)
		limiter := make(chan struct{}, cap_)
		other := make(chan struct{}, 4)
		reads := map[int]*c13read{}
		var obs []string
		settle := func() {
			// quiescence: the limiter length must be stable for a few polls
			last, stable := -1, 0
			for i := 0; i < 200 && stable < 4; i++ {
				time.Sleep(3 * time.Millisecond)
				if l := len(limiter); l == last {
					stable++
				} else {
					last, stable = l, 0
				}
			}
		}
		for _, op := range strings.Fields(strings.ReplaceAll(a[1], ",", " ")) {
			i := atoi(op[1:])
			switch op[0] {
			case 'S':
				fifo := filepath.Join(dir, fmt.Sprintf("f%d", i))
				if err := syscall.Mkfifo(fifo, 0o644); err != nil {
					panic(err)
				}
				// keep a writer open so that the reader's open() returns and it blocks in read()
				w, err := os.OpenFile(fifo, os.O_RDWR, 0)
				if err != nil {
					panic(err)
				}
				ctx, cancel := context.WithCancel(context.Background())
				r := &c13read{cancel: cancel, fifo: fifo, writer: w, started: true}
				reads[i] = r
				u, _ := user.New("verif", "local")
				h := serverHandlers.NewServerHandler(u, limiter, other)
				go func() {
					h.VerifC13Read(ctx, fifo, "f", false)
					atomic.StoreInt32(&r.done, 1)
				}()
			case 'C':
				if r := reads[i]; r != nil {
					r.cancel()
				}
			case 'F':
				if r := reads[i]; r != nil && r.writer != nil {
					// a reader that has not opened the file yet must find an empty regular file
					// (opening a FIFO without a writer would block), one that has it open gets EOF
					tmp := r.fifo + ".empty"
					os.WriteFile(tmp, nil, 0o644)
					os.Rename(tmp, r.fifo)
					r.writer.Close()
					r.writer = nil
				}
			}
			settle()
			returned := 0
			for _, r := range reads {
				if atomic.LoadInt32(&r.done) == 1 {
					returned++
				}
			}
			// files actually being read: descriptors open on the FIFOs, minus the harness' own writers
			reading := 0
			if ents, err := os.ReadDir("/proc/self/fd"); err == nil {
				for _, e := range ents {
					if t, err := os.Readlink("/proc/self/fd/" + e.Name()); err == nil && strings.HasPrefix(t, dir+"/") {
						reading++
					}
				}
			}
			for _, r := range reads {
				if r.writer != nil {
					reading--
				}
			}
			obs = append(obs, fmt.Sprintf("%d/%d/%d", len(limiter), returned, reading))
		}
		// clean up: end every read
		for _, r := range reads {
			r.cancel()
			if r.writer != nil {
				tmp := r.fifo + ".empty"
				os.WriteFile(tmp, nil, 0o644)
				os.Rename(tmp, r.fifo)
				r.writer.Close()
			}
		}
		settle()
		return strings.Join(obs, ",") + ";final=" + fmt.Sprint(len(limiter))
	}
}
