//go:build verif

package main

import (
	"encoding/base64"
	"fmt"
	"os"
	"path/filepath"
	"strings"
	"time"

	"github.com/mimecast/dtail/internal/config"
	serverHandlers "github.com/mimecast/dtail/internal/server/handlers"
	user "github.com/mimecast/dtail/internal/user/server"
)

func init() {
	// c13.session <cap> <ops: N<s>x<k> session s sends k follow commands (one file each) | K<s> session s ends>
	// Whole sessions through the real ServerHandler.Write / Shutdown, all sharing one tail limiter the harness
	// owns: every read of a session that ends must be gone afterwards, whether it held a slot or queued for one,
	// whichever of the session's commands it belongs to.  After every op: the limiter length at quiescence.
	ops["c13.session"] = func(a []string) string {
		cap_ := atoi(a[0])
		dir, err := os.MkdirTemp(os.Getenv("VERIF_WORK"), "c13s-")
		if err != nil {
			panic(err)
		}
		defer os.RemoveAll(dir)
		config.Server.Permissions.Default = []string{"^/.*"}
		config.Server.Permissions.Users = nil
		limiter := make(chan struct{}, cap_)
		other := make(chan struct{}, 4)
		sessions := map[int]*serverHandlers.ServerHandler{}
		settle := func() int {
			last, stable := -1, 0
			for i := 0; i < 400 && stable < 12; i++ {
				time.Sleep(5 * time.Millisecond)
				if l := len(limiter); l == last {
					stable++
				} else {
					last, stable = l, 0
				}
			}
			return last
		}
		var obs []string
		for _, op := range strings.Split(a[1], ",") {
			switch op[0] {
			case 'N':
				// N<s>x<k>: k commands of one file each; N<s>g<k>: ONE command whose glob matches k files
				glob := strings.Contains(op, "g")
				p := strings.Split(strings.Replace(op[1:], "g", "x", 1), "x")
				s, k := atoi(p[0]), atoi(p[1])
				u, _ := user.New("verif", "10.0.0.9:1")
				h := serverHandlers.NewServerHandler(u, other, limiter)
				sessions[s] = h
				go func() {
					for range h.VerifC13Lines() {
					}
				}()
				go func() {
					for range h.VerifC13ServerMessages() {
					}
				}()
				for f := 0; f < k; f++ {
					path := filepath.Join(dir, fmt.Sprintf("s%d-f%d.log", s, f))
					os.WriteFile(path, []byte("a line\n"), 0o644)
					if glob {
						continue
					}
					cmd := "tail: " + path + " regex:noop "
					h.Write([]byte("protocol 4.1 base64 " + base64.StdEncoding.EncodeToString([]byte(cmd)) + ";"))
				}
				if glob {
					cmd := "tail: " + filepath.Join(dir, fmt.Sprintf("s%d-f*.log", s)) + " regex:noop "
					h.Write([]byte("protocol 4.1 base64 " + base64.StdEncoding.EncodeToString([]byte(cmd)) + ";"))
				}
			case 'K':
				if h := sessions[atoi(op[1:])]; h != nil {
					h.Shutdown()
					// a follow notices the end of its session at its next 100 ms poll
					time.Sleep(300 * time.Millisecond)
				}
			}
			obs = append(obs, fmt.Sprint(settle()))
		}
		for _, h := range sessions {
			h.Shutdown()
		}
		final := settle()
		// a follow that was woken late may need its poll interval to notice the cancellation
		for i := 0; i < 30 && final != 0; i++ {
			time.Sleep(100 * time.Millisecond)
			final = settle()
		}
		return strings.Join(obs, ",") + ";final=" + fmt.Sprint(final)
	}
}
