//go:build verif

package main

import (
	"fmt"
	"os"
	"path/filepath"
	"strings"
	"time"
)

func init() {
	// c13.jobs <tail limit> <number of continuous jobs>
	// A real dserver process with MaxConcurrentTails=<limit> and <n> enabled continuous (background) jobs, each
	// following its own log file.  The reads of the server's own jobs count against the server-wide limit like
	// everybody else's.  For about 7 s the distinct job log files the server process holds open are sampled
	// through /proc/<pid>/fd.  Reported: the largest number seen at once (and whether any was seen at all).
	ops["c13.jobs"] = func(a []string) string {
		limit, n := atoi(a[0]), atoi(a[1])
		jobDir := filepath.Join(clusterBase(), fmt.Sprintf("c13jobs-%d-%d", os.Getpid(), time.Now().UnixNano()%1000000))
		os.MkdirAll(jobDir, 0o777)
		os.Chmod(jobDir, 0o777)
		defer os.RemoveAll(jobDir)
		var jobs []map[string]interface{}
		for i := 0; i < n; i++ {
			logf := filepath.Join(jobDir, fmt.Sprintf("job%d.log", i))
			os.WriteFile(logf, []byte("INFO|19801011-424242|1|demo.go|1|1|1|1.0|1m|MAPREDUCE:DEMO|foo=1|bar=42\n"), 0o666)
			jobs = append(jobs, map[string]interface{}{
				"Name": fmt.Sprintf("job%d", i), "Enable": true, "AllowFrom": []string{"localhost", "127.0.0.1"},
				"Files":   logf,
				"Query":   "from DEMO select count($line) group by $hostname interval 1",
				"Outfile": filepath.Join(jobDir, fmt.Sprintf("job%d.csv", i)),
			})
		}
		c := startCluster(1, map[string]interface{}{"MaxConcurrentTails": limit, "Continuous": jobs})
		defer c.stop()
		pid := c.procs[0].Process.Pid
		max, seen := 0, false
		deadline := time.Now().Add(7 * time.Second)
		for time.Now().Before(deadline) {
			open := map[string]bool{}
			if ents, err := os.ReadDir(fmt.Sprintf("/proc/%d/fd", pid)); err == nil {
				for _, e := range ents {
					if t, err := os.Readlink(fmt.Sprintf("/proc/%d/fd/%s", pid, e.Name())); err == nil &&
						strings.HasPrefix(t, jobDir+"/") && strings.HasSuffix(t, ".log") {
						open[t] = true
					}
				}
			}
			if len(open) > 0 {
				seen = true
			}
			if len(open) > max {
				max = len(open)
			}
			time.Sleep(40 * time.Millisecond)
		}
		if !seen {
			return "INCONCLUSIVE (no job opened its file)"
		}
		return fmt.Sprintf("max=%d", max)
	}
}
