//go:build verif

package handlers

import (
	"context"
	"github.com/mimecast/dtail/internal/io/line"

	"github.com/mimecast/dtail/internal/lcontext"
	"github.com/mimecast/dtail/internal/omode"
	"github.com/mimecast/dtail/internal/regex"
)

// VerifC13Read runs readCommand.read (the limiter acquire / release around one file read)
// for the /verif harness; the harness owns the limiter channels and the contexts.
func (h *ServerHandler) VerifC13Read(ctx context.Context, path, globID string, tail bool) {
	mode := omode.CatClient
	if tail {
		mode = omode.TailClient
	}
	newReadCommand(h, mode).read(ctx, lcontext.LContext{}, path, globID, regex.NewNoop())
}

// VerifC13Lines: the delivery queue (the harness drains it so that a follow never blocks on it).
func (h *ServerHandler) VerifC13Lines() chan *line.Line { return h.lines }

// VerifC13ServerMessages: the server message queue (drained by the harness).
func (h *ServerHandler) VerifC13ServerMessages() chan string { return h.serverMessages }
