//go:build verif

package server

import (
	user "github.com/mimecast/dtail/internal/user/server"

	gossh "golang.org/x/crypto/ssh"
)

// VerifVerifyAuthorizedKeys exposes verifyAuthorizedKeys to the /verif harness (C09).
func VerifVerifyAuthorizedKeys(u *user.User, fileBytes []byte, offered gossh.PublicKey) error {
	_, err := verifyAuthorizedKeys(u, fileBytes, offered)
	return err
}
