//go:build verif

package server

import gossh "golang.org/x/crypto/ssh"

// VerifPasswordCallback runs the password callback of a server value (C09); the callback
// uses no server state.
func VerifPasswordCallback(c gossh.ConnMetadata, pw []byte) error {
	var s Server
	_, err := s.Callback(c, pw)
	return err
}
