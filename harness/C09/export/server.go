//go:build verif

package server

import gossh "golang.org/x/crypto/ssh"

// VerifPasswordCallback runs the password callback of a server value (C09); the callback
// uses no server state.
func VerifPasswordCallback(c gossh.ConnMetadata, pw []byte) error {
	var s Server
	_, err := s.Callback(c, pw)
	return err
}

// VerifServerValue is a server value whose password callback is called several times in a
// row (c09.pwseq): state a server keeps between handshakes is exercised.
func VerifServerValue() *Server { return &Server{} }

// VerifPasswordCallbackOn runs the password callback of the given server value.
func VerifPasswordCallbackOn(s *Server, c gossh.ConnMetadata, pw []byte) error {
	_, err := s.Callback(c, pw)
	return err
}
