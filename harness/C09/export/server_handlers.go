//go:build verif

package handlers

// Accessors for the /verif harness (C09): observe a health session.
func (h *HealthHandler) VerifC09ServerMessages() chan string { return h.serverMessages }
func (h *HealthHandler) VerifC09QueuedLines() int            { return len(h.lines) + len(h.maprMessages) }
