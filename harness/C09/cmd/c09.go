//go:build verif

package main

import (
	"os"
	"path/filepath"
	"bytes"
	"crypto/ed25519"
	"encoding/base64"
	"fmt"
	"math/rand"
	"net"
	"strings"
	"time"

	"github.com/mimecast/dtail/internal/config"
	"github.com/mimecast/dtail/internal/server"
	serverHandlers "github.com/mimecast/dtail/internal/server/handlers"
	sshserver "github.com/mimecast/dtail/internal/ssh/server"
	user "github.com/mimecast/dtail/internal/user/server"

	gossh "golang.org/x/crypto/ssh"
)

var keyPool []gossh.PublicKey

func poolKey(i int) gossh.PublicKey {
	for len(keyPool) <= i {
		r := rand.New(rand.NewSource(int64(1000 + len(keyPool))))
		pub, _, err := ed25519.GenerateKey(r)
		if err != nil {
			panic(err)
		}
		k, err := gossh.NewPublicKey(pub)
		if err != nil {
			panic(err)
		}
		keyPool = append(keyPool, k)
	}
	return keyPool[i]
}

func keyLine(i int) string {
	return strings.TrimSuffix(string(gossh.MarshalAuthorizedKey(poolKey(i))), "\n")
}

// lineOf renders one line spec: k<i> key, o<i> key with options, r<i> key + CR, c comment,
// b blank, t white space only, g garbage, x<i> key with a trailing comment field, h<i> / j<i> key i commented out
func lineOf(spec string) string {
	n := 0
	if len(spec) > 1 {
		n = atoi(spec[1:])
	}
	switch spec[0] {
	case 'k':
		return keyLine(n)
	case 'o':
		return `command="/bin/true",no-pty,from="10.0.0.*" ` + keyLine(n)
	case 'r':
		return keyLine(n) + "\r"
	case 'x':
		return "   " + keyLine(n) + " user@host # not a comment"
	case 'c':
		return "# just a comment ssh-ed25519 AAAA"
	case 'h':
		// a key that was revoked by hand: commented out, otherwise a complete key line
		return "# " + keyLine(n) + " alice@laptop"
	case 'j':
		return "#" + keyLine(n)
	case 'b':
		return ""
	case 't':
		return "  \t "
	default:
		return "garbage line without a key AAAA"
	}
}

type fakeConn struct {
	user string
	addr net.Addr
}

func (f fakeConn) User() string          { return f.user }
func (f fakeConn) SessionID() []byte     { return []byte("s") }
func (f fakeConn) ClientVersion() []byte { return []byte("c") }
func (f fakeConn) ServerVersion() []byte { return []byte("s") }
func (f fakeConn) RemoteAddr() net.Addr  { return f.addr }
func (f fakeConn) LocalAddr() net.Addr   { return f.addr }

type strAddr string

func (a strAddr) Network() string { return "tcp" }
func (a strAddr) String() string  { return string(a) }

func init() {
	// c09.keys <specs,comma separated|-> <finalNL 0/1> <offered index>
	ops["c09.keys"] = func(a []string) string {
		var lines []string
		if a[0] != "-" {
			for _, s := range strings.Split(a[0], ",") {
				l := lineOf(s)
				// the oracle: is this single line a key line for the library, and which key?
				pk, _, _, _, err := gossh.ParseAuthorizedKey([]byte(l))
				isKey := strings.ContainsRune("korx", rune(s[0]))
				if isKey != (err == nil) {
					return "ORACLE-MISMATCH " + s
				}
				if isKey && !bytes.Equal(pk.Marshal(), poolKey(atoi(s[1:])).Marshal()) {
					return "ORACLE-MISMATCH key " + s
				}
				lines = append(lines, l)
			}
		}
		file := strings.Join(lines, "\n")
		if a[1] == "1" && len(lines) > 0 {
			file += "\n"
		}
		u, err := user.New("someone", "10.0.0.9:4242")
		if err != nil {
			panic(err)
		}
		if err := sshserver.VerifVerifyAuthorizedKeys(u, []byte(file), poolKey(atoi(a[2]))); err != nil {
			return "reject"
		}
		return "accept"
	}

	// c09.callback <where: cache|dir|emptydir|missing> <specs|-> <finalNL 0/1> <offered index>
	// The real PublicKeyCallback, which finds and reads the user's key file itself: the cached copy
	// <cwd>/<CacheDir>/<user>.authorized_keys holds the generated lines (cache), is a directory (dir: it exists,
	// reading it fails), or does not exist while the user has no home either (missing).
	ops["c09.callback"] = func(a []string) string {
		var lines []string
		if a[1] != "-" {
			for _, s := range strings.Split(a[1], ",") {
				lines = append(lines, lineOf(s))
			}
		}
		file := strings.Join(lines, "\n")
		if a[2] == "1" && len(lines) > 0 {
			file += "\n"
		}
		dir, err := os.MkdirTemp(os.Getenv("VERIF_WORK"), "c09cb-")
		if err != nil {
			panic(err)
		}
		defer os.RemoveAll(dir)
		old, _ := os.Getwd()
		if err := os.Chdir(dir); err != nil {
			panic(err)
		}
		defer os.Chdir(old)
		userName := "verifnosuchuser"
		cache := filepath.Join(dir, config.Common.CacheDir)
		os.MkdirAll(cache, 0o755)
		keyFile := filepath.Join(cache, userName+".authorized_keys")
		switch a[0] {
		case "cache":
			os.WriteFile(keyFile, []byte(file), 0o600)
		case "dir":
			os.MkdirAll(keyFile, 0o755)
			os.WriteFile(filepath.Join(keyFile, "authorized_keys"), []byte(file), 0o600)
		case "emptydir":
			os.MkdirAll(keyFile, 0o755)
		case "missing":
		}
		if _, err := sshserver.PublicKeyCallback(fakeConn{userName, strAddr("10.0.0.9:4242")}, poolKey(atoi(a[3]))); err != nil {
			return "reject"
		}
		return "accept"
	}

	// c09.password <user> <pw> <ip> <jobs: S|C:name:ip+ip;...|->
	ops["c09.password"] = func(a []string) string {
		userName, pw, ip := string(unhex(a[0])), unhex(a[1]), string(unhex(a[2]))
		verifSetJobs(a[3])
		err := server.VerifPasswordCallback(fakeConn{userName, strAddr(ip + ":51234")}, pw)
		if err != nil {
			return "reject"
		}
		return "accept"
	}

	// c09.pwseq <jobs: S|C:name:ip+ip;...|-> <user:pw:ip,...> : several password logins against ONE
	// server value and one job configuration, in order (what a server keeps between handshakes)
	ops["c09.pwseq"] = func(a []string) string {
		verifSetJobs(a[0])
		s := server.VerifServerValue()
		var res []string
		for _, at := range strings.Split(a[1], ",") {
			p := strings.Split(at, ":")
			err := server.VerifPasswordCallbackOn(s, fakeConn{string(unhex(p[0])), strAddr(string(unhex(p[2])) + ":51234")}, unhex(p[1]))
			if err != nil {
				res = append(res, "reject")
			} else {
				res = append(res, "accept")
			}
		}
		return strings.Join(res, ",")
	}

	// c09.health <decoded command> : what a health session answers
	ops["c09.health"] = func(a []string) string {
		cmd := unhex(a[0])
		u, err := user.New(config.HealthUser, "10.0.0.9:4242")
		if err != nil {
			panic(err)
		}
		h := serverHandlers.NewHealthHandler(u)
		go h.Write([]byte("protocol 4.1 base64 " + base64.StdEncoding.EncodeToString(cmd) + ";"))
		res := "none"
		deadline := time.After(400 * time.Millisecond)
	loop:
		for {
			select {
			case m := <-h.VerifC09ServerMessages():
				if strings.HasPrefix(m, ".") {
					continue
				}
				if m == "OK" {
					res = "OK"
				} else {
					res = "MSG"
				}
				break loop
			case <-deadline:
				break loop
			}
		}
		queued := h.VerifC09QueuedLines()
		h.Shutdown()
		return fmt.Sprintf("%s;data=%d", res, queued)
	}
}

func verifSetJobs(spec string) {
	config.Server.Schedule = nil
	config.Server.Continuous = nil
	if spec != "-" {
		for _, j := range strings.Split(spec, ";") {
			p := strings.Split(j, ":")
			var allow []string
			if p[2] != "" {
				allow = strings.Split(p[2], "+")
			}
			if p[0] == "S" {
				var s config.Scheduled
				s.Name, s.AllowFrom = p[1], allow
				config.Server.Schedule = append(config.Server.Schedule, s)
			} else {
				var c config.Continuous
				c.Name, c.AllowFrom = p[1], allow
				config.Server.Continuous = append(config.Server.Continuous, c)
			}
		}
	}
}
