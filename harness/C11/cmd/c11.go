//go:build verif

package main

import (
	"strconv"
	"strings"
	"unicode"

	"github.com/mimecast/dtail/internal/mapr"
)

// floatTable lists, for every piece of the query that could become a token, whether
// strconv.ParseFloat accepts it and the canonical text of the value.
func floatTable(q string) string {
	seen := map[string]bool{}
	var rows []string
	add := func(s string) {
		if s == "" || seen[s] {
			return
		}
		seen[s] = true
		if f, err := strconv.ParseFloat(s, 64); err == nil {
			rows = append(rows, hx([]byte(s))+"="+hx([]byte(strconv.FormatFloat(f, 'g', -1, 64))))
		}
	}
	for _, part := range strings.Split(q, "\"") {
		add(part)
		for _, w := range strings.FieldsFunc(part, func(r rune) bool { return unicode.IsSpace(r) || r == ',' }) {
			add(w)
			if len(w) > 1 {
				add(w[1 : len(w)-1])
			}
		}
	}
	if len(rows) == 0 {
		return "-"
	}
	return strings.Join(rows, ",")
}

func init() {
	// c11.parse <query> : real mapr.NewQuery, canonical dump (or ERR / NIL), plus the ParseFloat table
	ops["c11.parse"] = func(a []string) string {
		qs := string(unhex(a[0]))
		q, err := mapr.NewQuery(qs)
		res := ""
		switch {
		case err != nil:
			res = "ERR"
		case q == nil:
			res = "NIL"
		default:
			res = q.VerifDump()
		}
		return res + "#" + floatTable(qs)
	}
}
