//go:build verif

package mapr

import (
	"encoding/hex"
	"fmt"
	"strconv"
	"strings"
)

// Accessor for the /verif harness (C11): a canonical dump of a parsed query.

func vhx(s string) string {
	if s == "" {
		return "-"
	}
	return hex.EncodeToString([]byte(s))
}

func vfl(t fieldType, f float64) string {
	if t != Float {
		return "-"
	}
	return vhx(strconv.FormatFloat(f, 'g', -1, 64))
}

func vjoin(l []string) string {
	if len(l) == 0 {
		return "none"
	}
	return strings.Join(l, ",")
}

// VerifDump renders every field the parser fills in.
func (q *Query) VerifDump() string {
	var sel, where, set, group []string
	for _, s := range q.Select {
		sel = append(sel, fmt.Sprintf("%s|%s|%d", vhx(s.Field), vhx(s.FieldStorage), int(s.Operation)))
	}
	for _, w := range q.Where {
		where = append(where, fmt.Sprintf("%d|%s|%s|%d|%d|%s|%s", int(w.lType), vhx(w.lString), vfl(w.lType, w.lFloat),
			int(w.Operation), int(w.rType), vhx(w.rString), vfl(w.rType, w.rFloat)))
	}
	for _, s := range q.Set {
		var fs []string
		for _, f := range s.functionStack {
			fs = append(fs, f.Name)
		}
		set = append(set, fmt.Sprintf("%s|%d|%s|%s|%s", vhx(s.lString), int(s.rType), vhx(s.rString), vfl(s.rType, s.rFloat),
			vhx(strings.Join(fs, "+"))))
	}
	for _, g := range q.GroupBy {
		group = append(group, vhx(g))
	}
	out := "none"
	if q.Outfile != nil {
		out = fmt.Sprintf("%s/%v", vhx(q.Outfile.FilePath), q.Outfile.AppendMode)
	}
	return fmt.Sprintf("sel=%s;table=%s;where=%s;set=%s;group=%s;order=%s;rev=%v;key=%s;interval=%d;limit=%d;outfile=%s;logformat=%s",
		vjoin(sel), vhx(q.Table), vjoin(where), vjoin(set), vjoin(group), vhx(q.OrderBy), q.ReverseOrder, vhx(q.GroupKey),
		int64(q.Interval.Seconds()), q.Limit, out, vhx(q.LogFormat))
}
