//go:build verif

package main

import (
	"bytes"
	"fmt"
	"regexp"
	"strings"

	"github.com/mimecast/dtail/internal/lcontext"
	"github.com/mimecast/dtail/internal/regex"
)

func bits(re *regexp.Regexp, lines []gotLine, chomp bool) string {
	var sb strings.Builder
	for _, l := range lines {
		c := l.content
		if chomp {
			c = bytes.TrimSuffix(c, []byte("\n"))
		}
		if re.Match(c) {
			sb.WriteByte('1')
		} else {
			sb.WriteByte('0')
		}
	}
	if sb.Len() == 0 {
		return "-"
	}
	return sb.String()
}

// wireRegex builds the regex as the client does and passes it through the wire format the
// way the server receives it.
func wireRegex(pattern string, invert bool) (regex.Regex, error) {
	flag := regex.Default
	if invert {
		flag = regex.Invert
	}
	cre, err := regex.New(pattern, flag)
	if err != nil {
		return cre, err
	}
	ser, err := cre.Serialize()
	if err != nil {
		return cre, err
	}
	return regex.Deserialize(ser)
}

func init() {
	// c03.grep <m> <B> <A> <M> <invert> <pattern> <content>
	ops["c03.grep"] = func(a []string) string {
		m, B, A, M, invert := atoi(a[0]), atoi(a[1]), atoi(a[2]), atoi(a[3]), a[4] == "1"
		pattern := string(unhex(a[5]))
		path := tmpFile("grep.txt", unhex(a[6]))
		raw, err := regexp.Compile(pattern)
		if err != nil {
			return "regex-error"
		}
		sre, err := wireRegex(pattern, invert)
		if err != nil {
			return "regex-error"
		}
		all := runReader(path, "grep.txt", m, lcontext.LContext{}, regex.NewNoop())
		got := runReader(path, "grep.txt", m, lcontext.LContext{BeforeContext: B, AfterContext: A, MaxCount: M}, sre)
		var sb []string
		for _, g := range got {
			sb = append(sb, fmt.Sprintf("%d:%s", g.count, hx(g.content)))
		}
		return bits(raw, all, false) + ";" + bits(raw, all, true) + ";" + strings.Join(sb, ",")
	}

	// c03.e2e <m> <B> <A> <M> <invert> <pattern> <content> : the dgrep binary, serverless, plain
	ops["c03.e2e"] = func(a []string) string {
		m, invert := atoi(a[0]), a[4] == "1"
		pattern := string(unhex(a[5]))
		path := tmpFile("e2e.txt", unhex(a[6]))
		raw, err := regexp.Compile(pattern)
		if err != nil {
			return "regex-error"
		}
		all := runReader(path, "e2e.txt", m, lcontext.LContext{}, regex.NewNoop())
		cfg := tmpFile("e2e.cfg", []byte(fmt.Sprintf(`{"Server":{"MaxLineLength":%d}}`, m)))
		args := []string{"--plain", "--cfg", cfg, "--logger", "stdout", "--logLevel", "error",
			"--regex", pattern, "--before", a[1], "--after", a[2], "--max", a[3]}
		if invert {
			args = append(args, "--invert")
		}
		args = append(args, "--files", path)
		out, status := runBin("dgrep", args...)
		return bits(raw, all, false) + ";" + bits(raw, all, true) + ";" + fmt.Sprintf("%d;%s", status, hx(out))
	}
}
