//go:build verif

package main

import (
	"bytes"
	"compress/gzip"
	"context"
	"fmt"
	"strings"
	"time"

	"github.com/DataDog/zstd"
	clientHandlers "github.com/mimecast/dtail/internal/clients/handlers"
	"github.com/mimecast/dtail/internal/config"
	"github.com/mimecast/dtail/internal/io/fs"
	"github.com/mimecast/dtail/internal/lcontext"
	"github.com/mimecast/dtail/internal/regex"
	serverHandlers "github.com/mimecast/dtail/internal/server/handlers"
	user "github.com/mimecast/dtail/internal/user/server"
)

func init() {
	// c01.reader <m> <content> : raw lines of the real cat reader, comma separated hex
	ops["c01.reader"] = func(a []string) string {
		path := tmpFile("reader.txt", unhex(a[1]))
		got := runReader(path, "reader.txt", atoi(a[0]), lcontext.LContext{}, regex.NewNoop())
		var sb []string
		for _, g := range got {
			sb = append(sb, fmt.Sprintf("%d:%s", g.count, hx(g.content)))
		}
		return strings.Join(sb, ",")
	}

	// c01.pipe <plain> <m> <bufLen> <chunk> <content> : reader -> real server Read ->
	// real client Write; reports the frames and what the client printed.
	ops["c01.pipe"] = func(a []string) string {
		plain, m, bufLen, chunk := a[0] == "1", atoi(a[1]), atoi(a[2]), atoi(a[3])
		path := tmpFile("pipe.txt", unhex(a[4]))
		config.Server.MaxLineLength = m
		u, err := user.New("verif", "local")
		if err != nil {
			panic(err)
		}
		sh := serverHandlers.NewServerHandler(u, make(chan struct{}, 2), make(chan struct{}, 2))
		sh.VerifSetModes(plain, true, true)
		ctx, cancel := context.WithCancel(context.Background())
		defer cancel()
		readerDone := make(chan struct{})
		go func() {
			reader := fs.NewCatFile(path, "pipe.txt", sh.VerifServerMessages())
			reader.Start(ctx, lcontext.LContext{}, sh.VerifLines(), regex.NewNoop())
			close(readerDone)
		}()
		frames := drainServerHandler(sh, bufLen, readerDone)
		stream := bytes.Join(frames, nil)
		ch := clientHandlers.NewClientHandler("vserver")
		printed := captureStdout(func() {
			for i := 0; i < len(stream); i += chunk {
				j := i + chunk
				if j > len(stream) {
					j = len(stream)
				}
				ch.Write(stream[i:j])
			}
		})
		var fs []string
		for _, f := range frames {
			fs = append(fs, hx(f))
		}
		return strings.Join(fs, ",") + ";" + hx(printed)
	}

	// c01.e2e <m> <content> [gz|gzm|gzip|zst]: the freshly built dcat binary, serverless, --plain; with a suffix the
	// content is stored compressed (gzm: several gzip members concatenated, which is a valid gzip file) and dcat
	// must print the decompressed content
	ops["c01.e2e"] = func(a []string) string {
		m := atoi(a[0])
		content := unhex(a[1])
		name := "e2e.txt"
		data := content
		if len(a) > 2 {
			var buf bytes.Buffer
			gz := func(b []byte) {
				w := gzip.NewWriter(&buf)
				w.Write(b)
				w.Close()
			}
			switch a[2] {
			case "gz", "gzip":
				gz(content)
				name = "e2e.log." + a[2]
			case "gzm":
				k := len(content)
				gz(content[:k/3])
				gz(content[k/3 : 2*k/3])
				gz(content[2*k/3:])
				name = "e2e.log.gz"
			case "zst":
				c, err := zstd.Compress(nil, content)
				if err != nil {
					panic(err)
				}
				buf.Write(c)
				name = "e2e.log.zst"
			}
			data = buf.Bytes()
		}
		path := tmpFile(name, data)
		cfg := tmpFile("e2e.cfg", []byte(fmt.Sprintf(`{"Server":{"MaxLineLength":%d}}`, m)))
		out, status := runBin("dcat", "--plain", "--cfg", cfg, "--logger", "stdout", "--logLevel", "error", path)
		return fmt.Sprintf("%d;%s", status, hx(out))
	}
}

// drainServerHandler reads from the real server handler with a transport buffer of bufLen bytes
// until everything the readers queued has been handed out.  It relies on no internal state of
// Read: once the readers are done and the queues are empty, a hidden sentinel message is queued;
// Read hands out what is still pending of the last message before it selects again, so the
// sentinel is the last thing to arrive.  Its frames are removed from the result.
func drainServerHandler(sh *serverHandlers.ServerHandler, bufLen int, readersDone <-chan struct{}) [][]byte {
	sentinel := []byte(".verif end of data\xac")
	go func() {
		<-readersDone
		for len(sh.VerifLines()) > 0 || len(sh.VerifServerMessages()) > 0 {
			time.Sleep(50 * time.Microsecond)
		}
		sh.VerifServerMessages() <- string(sentinel[:len(sentinel)-1])
	}()
	var frames [][]byte
	var tail []byte
	p := make([]byte, bufLen)
	deadline := time.Now().Add(60 * time.Second)
	for time.Now().Before(deadline) {
		n, _ := sh.Read(p)
		if n == 0 {
			continue
		}
		frames = append(frames, append([]byte(nil), p[:n]...))
		tail = append(tail, p[:n]...)
		if len(tail) > len(sentinel) {
			tail = tail[len(tail)-len(sentinel):]
		}
		if bytes.Equal(tail, sentinel) {
			break
		}
	}
	// drop the sentinel's frames (a message never shares a Read with another message)
	rest := len(sentinel)
	for rest > 0 && len(frames) > 0 {
		last := frames[len(frames)-1]
		if len(last) > rest {
			frames[len(frames)-1] = last[:len(last)-rest]
			rest = 0
		} else {
			rest -= len(last)
			frames = frames[:len(frames)-1]
		}
	}
	return frames
}
