//go:build verif

package main

import (
	"bytes"
	"context"
	"fmt"
	"strings"
	"time"

	clientHandlers "github.com/mimecast/dtail/internal/clients/handlers"
	"github.com/mimecast/dtail/internal/config"
	"github.com/mimecast/dtail/internal/io/fs"
	"github.com/mimecast/dtail/internal/lcontext"
	"github.com/mimecast/dtail/internal/regex"
	serverHandlers "github.com/mimecast/dtail/internal/server/handlers"
	user "github.com/mimecast/dtail/internal/user/server"
)

func init() {
	// c01.reader <m> <content> : raw lines of the real cat reader, comma separated hex
	ops["c01.reader"] = func(a []string) string {
		path := tmpFile("reader.txt", unhex(a[1]))
		got := runReader(path, "reader.txt", atoi(a[0]), lcontext.LContext{}, regex.NewNoop())
		var sb []string
		for _, g := range got {
			sb = append(sb, fmt.Sprintf("%d:%s", g.count, hx(g.content)))
		}
		return strings.Join(sb, ",")
	}

	// c01.pipe <plain> <m> <bufLen> <chunk> <content> : reader -> real server Read ->
	// real client Write; reports the frames and what the client printed.
	ops["c01.pipe"] = func(a []string) string {
		plain, m, bufLen, chunk := a[0] == "1", atoi(a[1]), atoi(a[2]), atoi(a[3])
		path := tmpFile("pipe.txt", unhex(a[4]))
		config.Server.MaxLineLength = m
		u, err := user.New("verif", "local")
		if err != nil {
			panic(err)
		}
		sh := serverHandlers.NewServerHandler(u, make(chan struct{}, 2), make(chan struct{}, 2))
		sh.VerifSetModes(plain, true, true)
		ctx, cancel := context.WithCancel(context.Background())
		defer cancel()
		readerDone := make(chan struct{})
		go func() {
			reader := fs.NewCatFile(path, "pipe.txt", sh.VerifServerMessages())
			reader.Start(ctx, lcontext.LContext{}, sh.VerifLines(), regex.NewNoop())
			close(readerDone)
		}()
		var frames [][]byte
		p := make([]byte, bufLen)
		finished := false
		for {
			if sh.VerifReadPending() > 0 || len(sh.VerifLines()) > 0 || len(sh.VerifServerMessages()) > 0 {
				n, _ := sh.Read(p)
				if n > 0 {
					frames = append(frames, append([]byte(nil), p[:n]...))
				}
				continue
			}
			if finished {
				break
			}
			select {
			case <-readerDone:
				finished = true
			default:
				time.Sleep(20 * time.Microsecond)
			}
		}
		stream := bytes.Join(frames, nil)
		ch := clientHandlers.NewClientHandler("vserver")
		printed := captureStdout(func() {
			for i := 0; i < len(stream); i += chunk {
				j := i + chunk
				if j > len(stream) {
					j = len(stream)
				}
				ch.Write(stream[i:j])
			}
		})
		var fs []string
		for _, f := range frames {
			fs = append(fs, hx(f))
		}
		return strings.Join(fs, ",") + ";" + hx(printed)
	}

	// c01.e2e <m> <content> [suffix]: the freshly built dcat binary, serverless, --plain.
	ops["c01.e2e"] = func(a []string) string {
		m := atoi(a[0])
		name := "e2e.txt"
		path := tmpFile(name, unhex(a[1]))
		cfg := tmpFile("e2e.cfg", []byte(fmt.Sprintf(`{"Server":{"MaxLineLength":%d}}`, m)))
		out, status := runBin("dcat", "--plain", "--cfg", cfg, "--logger", "stdout", "--logLevel", "error", path)
		return fmt.Sprintf("%d;%s", status, hx(out))
	}
}

