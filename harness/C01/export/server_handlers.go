//go:build verif

package handlers

import "github.com/mimecast/dtail/internal/io/line"

// Accessors for the /verif harness (add-only, compiled only with -tags verif).

func (h *ServerHandler) VerifLines() chan *line.Line      { return h.lines }
func (h *ServerHandler) VerifServerMessages() chan string { return h.serverMessages }
func (h *ServerHandler) VerifMaprMessages() chan string   { return h.maprMessages }
func (h *ServerHandler) VerifSetModes(plain, serverless, quiet bool) {
	h.plain, h.serverless, h.quiet = plain, serverless, quiet
}
func (h *ServerHandler) VerifModes() (bool, bool, bool) { return h.plain, h.serverless, h.quiet }
func (h *ServerHandler) VerifHostname() string          { return h.hostname }
func (h *ServerHandler) VerifActiveCommands() int32     { return h.activeCommands }

// VerifReadPending: bytes of a message still waiting for the next Read (after the fix of the
// transport-buffer truncation).
func (h *ServerHandler) VerifReadPending() int { return h.readBuf.Len() }
