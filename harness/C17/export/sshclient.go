//go:build verif

package client

import (
	"net"

	"golang.org/x/crypto/ssh"
	"golang.org/x/crypto/ssh/knownhosts"
)

// VerifTrustHosts runs the real trustHosts on a known_hosts file (C17). The response
// channels are buffered so that nobody has to wait for the answers.
func VerifTrustHosts(path string, servers []string, remotes []net.Addr, keys []ssh.PublicKey) {
	c := KnownHostsCallback{knownHostsPath: path}
	var hosts []unknownHost
	for i := range servers {
		hosts = append(hosts, unknownHost{
			server:     servers[i],
			remote:     remotes[i],
			key:        keys[i],
			hostLine:   knownhosts.Line([]string{servers[i]}, keys[i]),
			ipLine:     knownhosts.Line([]string{remotes[i].String()}, keys[i]),
			responseCh: make(chan response, 1),
		})
	}
	c.trustHosts(hosts)
}
