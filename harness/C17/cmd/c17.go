//go:build verif

package main

import (
	"context"
	"crypto/ed25519"
	"fmt"
	"math/rand"
	"net"
	"os"
	"strings"
	"time"

	sshclient "github.com/mimecast/dtail/internal/ssh/client"

	gossh "golang.org/x/crypto/ssh"
	"golang.org/x/crypto/ssh/knownhosts"
)

func hostKey(i int) gossh.PublicKey {
	r := rand.New(rand.NewSource(int64(7000 + i)))
	pub, _, err := ed25519.GenerateKey(r)
	if err != nil {
		panic(err)
	}
	k, err := gossh.NewPublicKey(pub)
	if err != nil {
		panic(err)
	}
	return k
}

type tcpAddr string

func (a tcpAddr) Network() string { return "tcp" }
func (a tcpAddr) String() string  { return string(a) }

func init() {
	// c17.trust <old known_hosts> <hosts: server~remote~keyidx;...>
	// real trustHosts; reports the library's view of every new host (lines, normalised
	// addresses) and the rewritten file
	ops["c17.trust"] = func(a []string) string {
		path := tmpFile("known_hosts", unhex(a[0]))
		os.Remove(path + ".tmp")
		var servers []string
		var remotes []net.Addr
		var keys []gossh.PublicKey
		var oracle []string
		if a[1] != "-" {
			for _, h := range strings.Split(a[1], ";") {
				p := strings.Split(h, "~")
				k := hostKey(atoi(p[2]))
				servers = append(servers, p[0])
				remotes = append(remotes, tcpAddr(p[1]))
				keys = append(keys, k)
				oracle = append(oracle, strings.Join([]string{
					hx([]byte(knownhosts.Line([]string{p[0]}, k))), hx([]byte(knownhosts.Line([]string{p[1]}, k))),
					hx([]byte(knownhosts.Normalize(p[0]))), hx([]byte(knownhosts.Normalize(p[1])))}, ","))
			}
		}
		sshclient.VerifTrustHosts(path, servers, remotes, keys)
		out, err := os.ReadFile(path)
		if err != nil {
			panic(err)
		}
		_, tmpErr := os.Stat(path + ".tmp")
		o := strings.Join(oracle, ";")
		if o == "" {
			o = "-"
		}
		return fmt.Sprintf("%s#%s;tmpleft=%v", o, hx(out), tmpErr == nil)
	}

	// c17.wrap <state: known|unknown|changed> <trustAll 0/1> <answers, comma separated>
	// the real host key callback with the prompt goroutine and scripted stdin
	ops["c17.wrap"] = func(a []string) string {
		state, trustAll := a[0], a[1] == "1"
		server, remote := "srv.example.org:2222", tcpAddr("10.1.2.3:2222")
		key := hostKey(1)
		otherLine := knownhosts.Line([]string{"other.example.org"}, hostKey(3))
		old := "# known hosts\n" + otherLine + "\n"
		switch state {
		case "known":
			old += knownhosts.Line([]string{server}, key) + "\n"
		case "changed":
			old += knownhosts.Line([]string{server}, hostKey(2)) + "\n"
		}
		path := tmpFile("known_hosts_wrap", []byte(old))
		r, w, err := os.Pipe()
		if err != nil {
			panic(err)
		}
		savedIn, savedOut := os.Stdin, os.Stdout
		devnull, _ := os.OpenFile(os.DevNull, os.O_WRONLY, 0)
		os.Stdin, os.Stdout = r, devnull
		defer func() { os.Stdin, os.Stdout = savedIn, savedOut; r.Close(); devnull.Close() }()
		cancelCase := a[2] == "CANCEL"     // nobody answers; the client's context ends while the host is pending
		rounds := strings.Split(a[2], "|") // several connection attempts through the SAME callback, one answer script each
		defer w.Close()

		throttle := make(chan struct{}, 1)
		throttle <- struct{}{}
		cb, err := sshclient.NewKnownHostsCallback(path, trustAll, throttle)
		if err != nil {
			panic(err)
		}
		ctx, cancel := context.WithCancel(context.Background())
		defer cancel()
		go cb.PromptAddHosts(ctx)
		var verdicts []string
		for _, answersOfRound := range rounds {
			if !cancelCase {
				go func(ans string) { w.WriteString(strings.ReplaceAll(ans, ",", "\n") + "\n") }(answersOfRound)
			}
			res := make(chan error, 1)
			go func() { res <- cb.Wrap()(server, remote, key) }()
			verdict := "timeout"
			wait := 8 * time.Second
			if cancelCase {
				time.AfterFunc(300*time.Millisecond, cancel)
				wait = 1800 * time.Millisecond
			}
			select {
			case err := <-res:
				if err == nil {
					verdict = "proceed"
				} else {
					verdict = "refuse"
				}
			case <-time.After(wait):
			}
			verdicts = append(verdicts, verdict)
			if verdict == "timeout" {
				break
			}
		}
		verdict := strings.Join(verdicts, "|")
		time.Sleep(30 * time.Millisecond) // let a trusting prompt finish its rename
		now, _ := os.ReadFile(path)
		recorded := strings.Contains(string(now), knownhosts.Line([]string{server}, key))
		keptOther := strings.Contains(string(now), otherLine+"\n")
		return fmt.Sprintf("%s;untrusted=%v;recorded=%v;keptother=%v", verdict, cb.Untrusted(server), recorded, keptOther)
	}
}
