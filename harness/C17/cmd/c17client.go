//go:build verif

package main

import (
	"context"
	"crypto/ed25519"
	"crypto/rand"
	"crypto/rsa"
	"crypto/x509"
	"encoding/pem"
	"fmt"
	"net"
	"os"
	"path/filepath"
	"strings"
	"sync"
	"time"

	"github.com/mimecast/dtail/internal/clients"
	"github.com/mimecast/dtail/internal/config"

	gossh "golang.org/x/crypto/ssh"
	"golang.org/x/crypto/ssh/knownhosts"
)

var (
	c17userKeyOnce sync.Once
	c17userKeyPEM  []byte
)

// c17peer: a minimal SSH server with a fresh host key that lets every client in and records what it gets.
type c17peer struct {
	l          net.Listener
	mu         sync.Mutex
	handshakes int
	sessions   int
	received   int
	pub        gossh.PublicKey
}

func newC17peer() *c17peer {
	_, priv, err := ed25519.GenerateKey(rand.Reader)
	if err != nil {
		panic(err)
	}
	signer, err := gossh.NewSignerFromKey(priv)
	if err != nil {
		panic(err)
	}
	cfg := &gossh.ServerConfig{
		PublicKeyCallback: func(gossh.ConnMetadata, gossh.PublicKey) (*gossh.Permissions, error) { return nil, nil },
		PasswordCallback:  func(gossh.ConnMetadata, []byte) (*gossh.Permissions, error) { return nil, nil },
	}
	cfg.AddHostKey(signer)
	l, err := net.Listen("tcp", "127.0.0.1:0")
	if err != nil {
		panic(err)
	}
	p := &c17peer{l: l, pub: signer.PublicKey()}
	go func() {
		for {
			nc, err := l.Accept()
			if err != nil {
				return
			}
			go func() {
				defer nc.Close()
				_, chans, reqs, err := gossh.NewServerConn(nc, cfg)
				if err != nil {
					return
				}
				p.mu.Lock()
				p.handshakes++
				p.mu.Unlock()
				go gossh.DiscardRequests(reqs)
				for nch := range chans {
					ch, creqs, err := nch.Accept()
					if err != nil {
						continue
					}
					p.mu.Lock()
					p.sessions++
					p.mu.Unlock()
					go func() {
						for r := range creqs {
							if r.WantReply {
								r.Reply(true, nil)
							}
						}
					}()
					go func() {
						buf := make([]byte, 4096)
						for {
							n, err := ch.Read(buf)
							p.mu.Lock()
							p.received += n
							p.mu.Unlock()
							if err != nil {
								return
							}
						}
					}()
				}
			}()
		}
	}()
	return p
}

func init() {
	// c17.client <auth: key|default|preset> <trustAll 0/1> <state: known|unknown> <answer: y|n>
	// A cat client built the way cmd/dcat builds it, against a local SSH server with a fresh host key: `key` = a
	// private key file given explicitly (-key), `default` = the key in ~/.ssh/id_rsa, `preset` = the programmatic
	// case (auth methods handed in: health check and jobs; documented to skip the known-hosts check).  HOME is a
	// scratch directory whose known_hosts holds one unrelated entry (and the server's, for `known`).  The answer
	// is what the user types at the prompt.  Reported: whether the server saw a session / command bytes, and
	// whether known_hosts gained the server.
	ops["c17.client"] = func(a []string) string {
		auth, trustAll, state, answer := a[0], a[1] == "1", a[2], a[3]
		c17userKeyOnce.Do(func() {
			k, err := rsa.GenerateKey(rand.Reader, 2048)
			if err != nil {
				panic(err)
			}
			c17userKeyPEM = pem.EncodeToMemory(&pem.Block{Type: "RSA PRIVATE KEY", Bytes: x509.MarshalPKCS1PrivateKey(k)})
		})
		home, err := os.MkdirTemp(os.Getenv("VERIF_WORK"), "c17home-")
		if err != nil {
			panic(err)
		}
		defer os.RemoveAll(home)
		os.MkdirAll(filepath.Join(home, ".ssh"), 0o700)
		savedHome, savedSock := os.Getenv("HOME"), os.Getenv("SSH_AUTH_SOCK")
		os.Setenv("HOME", home)
		os.Unsetenv("SSH_AUTH_SOCK")
		defer func() { os.Setenv("HOME", savedHome); os.Setenv("SSH_AUTH_SOCK", savedSock) }()

		peer := newC17peer()
		defer peer.l.Close()
		addr := peer.l.Addr().String()
		other := knownhosts.Line([]string{"unrelated.example.org:2222"}, hostKey(3))
		kh := other + "\n"
		if state == "known" {
			kh += knownhosts.Line([]string{addr}, peer.pub) + "\n"
		}
		khPath := filepath.Join(home, ".ssh", "known_hosts")
		os.WriteFile(khPath, []byte(kh), 0o600)

		args := config.Args{
			ConfigFile: "none", Logger: "none", LogLevel: "error", NoColor: true, Quiet: true,
			SSHPort: config.Common.SSHPort, ServersStr: addr, UserName: "verif", What: "/etc/hostname",
			TrustAllHosts: trustAll, ConnectionsPerCPU: 10,
		}
		switch auth {
		case "key":
			kp := filepath.Join(home, "id_explicit")
			os.WriteFile(kp, c17userKeyPEM, 0o600)
			args.SSHPrivateKeyFilePath = kp
		case "default":
			os.WriteFile(filepath.Join(home, ".ssh", "id_rsa"), c17userKeyPEM, 0o600)
		case "preset":
			args.SSHAuthMethods = []gossh.AuthMethod{gossh.Password("unused")}
		}

		r, w, err := os.Pipe()
		if err != nil {
			panic(err)
		}
		savedIn, savedOut := os.Stdin, os.Stdout
		devnull, _ := os.OpenFile(os.DevNull, os.O_WRONLY, 0)
		os.Stdin, os.Stdout = r, devnull
		defer func() { os.Stdin, os.Stdout = savedIn, savedOut; r.Close(); w.Close(); devnull.Close() }()
		w.WriteString(answer + "\n")

		client, err := clients.NewCatClient(args)
		if err != nil {
			return "client-error " + err.Error()
		}
		ctx, cancel := context.WithCancel(context.Background())
		done := make(chan struct{})
		go func() {
			defer close(done)
			client.Start(ctx, make(chan string))
		}()
		deadline := time.After(8 * time.Second)
		tick := time.NewTicker(30 * time.Millisecond)
		defer tick.Stop()
	wait:
		for {
			select {
			case <-done:
				break wait
			case <-deadline:
				break wait
			case <-tick.C:
				peer.mu.Lock()
				got := peer.received
				peer.mu.Unlock()
				if got > 0 {
					time.Sleep(150 * time.Millisecond)
					break wait
				}
			}
		}
		cancel()
		select {
		case <-done:
		case <-time.After(5 * time.Second):
		}
		time.Sleep(50 * time.Millisecond)
		peer.mu.Lock()
		sessions, received := peer.sessions, peer.received
		peer.mu.Unlock()
		now, _ := os.ReadFile(khPath)
		recorded := strings.Contains(string(now), knownhosts.Line([]string{addr}, peer.pub))
		keptOther := strings.Contains(string(now), other+"\n")
		return fmt.Sprintf("session=%v;commands=%v;recorded=%v;keptother=%v", sessions > 0, received > 0, recorded, keptOther)
	}
}
