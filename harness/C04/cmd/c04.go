//go:build verif

package main

import (
	"bytes"
	"context"
	"fmt"
	"os"
	"regexp"
	"strings"
	"sync"
	"time"

	"github.com/mimecast/dtail/internal/config"
	"github.com/mimecast/dtail/internal/io/fs"
	"github.com/mimecast/dtail/internal/io/line"
	"github.com/mimecast/dtail/internal/lcontext"
	"github.com/mimecast/dtail/internal/regex"
)

// waitOpened waits until the tail reader has the file open with its offset at `size`
// (the seek to the end of the file happened).
func waitOpened(path string, size int64) bool {
	for i := 0; i < 400; i++ {
		ents, _ := os.ReadDir("/proc/self/fd")
		for _, e := range ents {
			if t, err := os.Readlink("/proc/self/fd/" + e.Name()); err == nil && t == path {
				if b, err := os.ReadFile("/proc/self/fdinfo/" + e.Name()); err == nil {
					if strings.Contains(string(b), fmt.Sprintf("pos:\t%d\n", size)) {
						return true
					}
				}
			}
		}
		time.Sleep(2 * time.Millisecond)
	}
	return false
}

func init() {
	// c04.tail <m> <cap> <regex|-> <pre> <steps: W<hex> append | S stall consumer | R resume | P pause>
	ops["c04.tail"] = func(a []string) string {
		m, qcap := atoi(a[0]), atoi(a[1])
		config.Server.MaxLineLength = m
		re := regex.NewNoop()
		var raw *regexp.Regexp
		if a[2] != "-" {
			pat := string(unhex(a[2]))
			r, err := regex.New(pat, regex.Default)
			if err != nil {
				return "regex-error"
			}
			re = r
			raw = regexp.MustCompile(pat)
		}
		pre := unhex(a[3])
		path := tmpFile(fmt.Sprintf("tail-%d.log", time.Now().UnixNano()), pre)
		defer os.Remove(path)
		serverMessages := make(chan string, 10)
		go func() {
			for range serverMessages {
			}
		}()
		lines := make(chan *line.Line, qcap)
		ctx, cancel := context.WithCancel(context.Background())
		var mu sync.Mutex
		var got []string
		running := true
		consumerDone := make(chan struct{})
		stopConsumer := make(chan struct{})
		go func() {
			defer close(consumerDone)
			for {
				mu.Lock()
				r := running
				mu.Unlock()
				if r {
					select {
					case l := <-lines:
						mu.Lock()
						got = append(got, fmt.Sprintf("%d:%d:%s", l.Count, l.TransmittedPerc, hx(l.Content.Bytes())))
						mu.Unlock()
						continue
					default:
					}
				}
				select {
				case <-stopConsumer:
					return
				case <-time.After(time.Millisecond):
				}
			}
		}()
		startDone := make(chan struct{})
		go func() {
			reader := fs.NewTailFile(path, "t.log", serverMessages)
			reader.Start(ctx, lcontext.LContext{}, lines, re)
			close(startDone)
		}()
		if !waitOpened(path, int64(len(pre))) {
			cancel()
			return "not-opened"
		}
		fd, err := os.OpenFile(path, os.O_WRONLY|os.O_APPEND, 0)
		if err != nil {
			panic(err)
		}
		var appended bytes.Buffer
		for _, st := range strings.Split(a[4], ",") {
			switch st[0] {
			case 'W':
				d := unhex(st[1:])
				fd.Write(d)
				appended.Write(d)
			case 'S':
				mu.Lock()
				running = false
				mu.Unlock()
			case 'R':
				mu.Lock()
				running = true
				mu.Unlock()
				time.Sleep(30 * time.Millisecond)
			case 'P':
				time.Sleep(130 * time.Millisecond)
			case 'L':
				// a long pause of the writer (across the follow's 3 s truncation check and anything else that
				// is driven by time rather than by data): a partial line stays held
				time.Sleep(time.Duration(atoi(st[1:])) * time.Millisecond)
			}
		}
		fd.Close()
		// let the reader catch up (it polls every 100 ms), with the consumer running
		mu.Lock()
		running = true
		mu.Unlock()
		last, stable := -1, 0
		for i := 0; i < 300 && stable < 30; i++ {
			time.Sleep(10 * time.Millisecond)
			mu.Lock()
			n := len(got)
			mu.Unlock()
			if n == last {
				stable++
			} else {
				last, stable = n, 0
			}
		}
		cancel()
		select {
		case <-startDone:
		case <-time.After(2 * time.Second):
		}
		close(stopConsumer)
		<-consumerDone
		// the regexp's answers for the complete lines of the appended bytes, as a cat reader splits them
		ap := tmpFile("tail-appended.txt", appended.Bytes())
		all := runReader(ap, "x", m, lcontext.LContext{}, regex.NewNoop())
		var bits strings.Builder
		for _, l := range all {
			if !bytes.HasSuffix(l.content, []byte("\n")) {
				continue
			}
			if raw == nil || raw.Match(l.content) {
				bits.WriteByte('1')
			} else {
				bits.WriteByte('0')
			}
		}
		b := bits.String()
		if b == "" {
			b = "-"
		}
		mu.Lock()
		defer mu.Unlock()
		res := strings.Join(got, ",")
		if res == "" {
			res = "none"
		}
		return res + "#" + b
	}

	// c04.perc : Go's float percentOf against the model's integer formula on every (m,t) pair of the ring
	ops["c04.perc"] = func(a []string) string {
		n := atoi(a[0])
		var sb strings.Builder
		for mm := 0; mm <= n; mm++ {
			for t := 0; t <= mm; t++ {
				sb.WriteString(fmt.Sprintf("%d,", fs.VerifTransmittedPerc(uint64(mm), t)))
			}
		}
		return fmt.Sprintf("%x", sb.String())
	}
}
