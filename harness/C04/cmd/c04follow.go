//go:build verif

package main

import (
	"context"
	"fmt"
	"os"
	"strings"
	"sync"
	"time"

	"github.com/mimecast/dtail/internal/config"
	serverHandlers "github.com/mimecast/dtail/internal/server/handlers"
	user "github.com/mimecast/dtail/internal/user/server"
)

// readersOn: the read-only descriptors of this process whose target is path, and whether one of them is at offset pos
// (the harness's own writer descriptor is write-only and does not count).
func readersOn(path string, pos int64) (n int, at bool) {
	ents, _ := os.ReadDir("/proc/self/fd")
	for _, e := range ents {
		t, err := os.Readlink("/proc/self/fd/" + e.Name())
		if err != nil || t != path {
			continue
		}
		b, err := os.ReadFile("/proc/self/fdinfo/" + e.Name())
		if err != nil {
			continue
		}
		var flags int64
		var p int64 = -1
		for _, l := range strings.Split(string(b), "\n") {
			if strings.HasPrefix(l, "flags:") {
				fmt.Sscanf(strings.TrimSpace(strings.TrimPrefix(l, "flags:")), "%o", &flags)
			}
			if strings.HasPrefix(l, "pos:") {
				fmt.Sscanf(strings.TrimSpace(strings.TrimPrefix(l, "pos:")), "%d", &p)
			}
		}
		if flags&3 != 0 {
			continue
		}
		n++
		if p == pos {
			at = true
		}
	}
	return
}

func init() {
	// c04.follow <m> <pre> <steps: W<hex> append | P pause | M move the file away until the reader lets go of it, move it back, wait for the re-open>
	// The follow as the server runs it (readCommand.read in tail mode, with its re-open loop).  Nothing is
	// appended while the file is away, so every appended line has to arrive exactly once, in order.
	ops["c04.follow"] = func(a []string) string {
		config.Server.MaxLineLength = atoi(a[0])
		pre := unhex(a[1])
		path := tmpFile(fmt.Sprintf("follow-%d.log", time.Now().UnixNano()), pre)
		away := path + ".away"
		defer os.Remove(path)
		defer os.Remove(away)
		u, err := user.New("verif", "local")
		if err != nil {
			panic(err)
		}
		h := serverHandlers.NewServerHandler(u, make(chan struct{}, 2), make(chan struct{}, 2))
		go func() {
			for range h.VerifC04ServerMessages() {
			}
		}()
		var mu sync.Mutex
		var got []string
		ctx, cancel := context.WithCancel(context.Background())
		go func() {
			for {
				select {
				case l := <-h.VerifC04Lines():
					mu.Lock()
					got = append(got, hx(l.Content.Bytes()))
					mu.Unlock()
				case <-ctx.Done():
					return
				}
			}
		}()
		done := make(chan struct{})
		go func() {
			h.VerifC04Follow(ctx, path, "f.log")
			close(done)
		}()
		size := int64(len(pre))
		if !waitOpened(path, size) {
			cancel()
			return "not-opened"
		}
		// the writer holds its own descriptor: appends reach the same file wherever its name points
		fd, err := os.OpenFile(path, os.O_WRONLY|os.O_APPEND, 0)
		if err != nil {
			panic(err)
		}
		note := ""
		for _, st := range strings.Split(a[2], ",") {
			switch st[0] {
			case 'W':
				d := unhex(st[1:])
				fd.Write(d)
				size += int64(len(d))
			case 'P':
				time.Sleep(130 * time.Millisecond)
			case 'M':
				// let the reader drain what is there, then take the name away
				time.Sleep(400 * time.Millisecond)
				os.Rename(path, away)
				gone := false
				for i := 0; i < 600 && !gone; i++ { // the truncation check runs every 3 s
					time.Sleep(10 * time.Millisecond)
					n1, _ := readersOn(away, -1)
					n2, _ := readersOn(path, -1)
					gone = n1+n2 == 0
				}
				os.Rename(away, path)
				if !gone {
					note = "reader-kept-the-file"
					break
				}
				// the re-open follows after 2 s; a reader positioned at the end has arrived, any other reader gets time to read
				arrived := false
				for i := 0; i < 500 && !arrived; i++ {
					time.Sleep(10 * time.Millisecond)
					n, at := readersOn(path, size)
					arrived = at
					if n > 0 && !at {
						time.Sleep(400 * time.Millisecond)
						arrived = true
					}
				}
				if !arrived {
					note = "not-reopened"
				}
			}
		}
		fd.Close()
		last, stable := -1, 0
		for i := 0; i < 300 && stable < 30; i++ {
			time.Sleep(10 * time.Millisecond)
			mu.Lock()
			n := len(got)
			mu.Unlock()
			if n == last {
				stable++
			} else {
				last, stable = n, 0
			}
		}
		cancel()
		select {
		case <-done:
		case <-time.After(3 * time.Second):
		}
		mu.Lock()
		defer mu.Unlock()
		res := strings.Join(got, ",")
		if res == "" {
			res = "none"
		}
		if note != "" {
			res += ";" + note
		}
		return res
	}
}
