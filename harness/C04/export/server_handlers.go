//go:build verif

package handlers

import (
	"context"

	"github.com/mimecast/dtail/internal/io/line"
	"github.com/mimecast/dtail/internal/lcontext"
	"github.com/mimecast/dtail/internal/omode"
	"github.com/mimecast/dtail/internal/regex"
)

// VerifC04Follow runs readCommand.read in tail mode: the follow with its re-open loop.
func (h *ServerHandler) VerifC04Follow(ctx context.Context, path, globID string) {
	newReadCommand(h, omode.TailClient).read(ctx, lcontext.LContext{}, path, globID, regex.NewNoop())
}

// VerifC04Lines: the delivery queue.
func (h *ServerHandler) VerifC04Lines() chan *line.Line { return h.lines }

// VerifC04ServerMessages: the server message queue (drained by the harness).
func (h *ServerHandler) VerifC04ServerMessages() chan string { return h.serverMessages }
