//go:build verif

package fs

// VerifTransmittedPerc evaluates the real transmittedPerc() for given counters (C04).
func VerifTransmittedPerc(matchCount uint64, transmitCount int) int {
	s := stats{matchCount: matchCount, transmitCount: transmitCount}
	return s.transmittedPerc()
}
