//go:build verif

package handlers

// Accessors for the /verif harness (C02): session bookkeeping.
func (h *ServerHandler) VerifC02Active() int32 { return h.activeCommands }
func (h *ServerHandler) VerifC02Queued() int {
	return len(h.lines) + len(h.serverMessages) + len(h.maprMessages)
}
func (h *ServerHandler) VerifC02SetModes(plain, serverless bool) {
	h.plain, h.serverless = plain, serverless
}
