//go:build verif

package main

import (
	"bytes"
	"encoding/base64"
	"fmt"
	"os"
	"os/exec"
	"path/filepath"
	"strings"
	"sync/atomic"
	"time"

	"github.com/mimecast/dtail/internal/config"
	serverHandlers "github.com/mimecast/dtail/internal/server/handlers"
	user "github.com/mimecast/dtail/internal/user/server"
)

// c02pad: every c02pad-th line of the files written next carries this many bytes of padding behind its number (c02.long)
var c02pad, c02padEvery int

func c02file(dir string, i, n int) string {
	var sb strings.Builder
	for k := 1; k <= n; k++ {
		if c02pad > 0 && k%c02padEvery == 0 {
			sb.WriteString(fmt.Sprintf("f%d:%d %s\n", i, k, strings.Repeat("p", c02pad)))
			continue
		}
		sb.WriteString(fmt.Sprintf("f%d:%d\n", i, k))
	}
	p := filepath.Join(dir, fmt.Sprintf("f%d.txt", i))
	os.WriteFile(p, []byte(sb.String()), 0o644)
	return p
}

func init() {
	// c02.session <catLimit> <files: n0+n1+...> <script>
	// The harness is the client side of one server session: C<i> sends the cat command for file i
	// (and waits until the server has dispatched it), I waits until the session is idle (no active
	// command), R<k> reads k frames, T<ms> stalls, E reads until the close handshake or 3 s of silence.
	// Frames are reported as l<i>.<k> (line k of file i), syn, m (a server message).
	ops["c02.session"] = func(a []string) string {
		limit := atoi(a[0])
		dir, err := os.MkdirTemp(os.Getenv("VERIF_WORK"), "c02-")
		if err != nil {
			panic(err)
		}
		defer os.RemoveAll(dir)
		var files []string
		for i, n := range strings.Split(a[1], "+") {
			files = append(files, c02file(dir, i, atoi(n)))
		}
		config.Server.MaxLineLength = 1024
		u, _ := user.New("verif", "local")
		h := serverHandlers.NewServerHandler(u, make(chan struct{}, limit), make(chan struct{}, limit))
		h.VerifC02SetModes(true, false) // not serverless: a serverless session with a pipe on stdin reads stdin instead of the files
		var obs []string
		buf := make([]byte, 32*1024)
		var pending []byte
		closed := false
		// readFrame performs Read calls until one whole frame (up to the delimiter) is available
		readFrame := func(maxWait time.Duration) bool {
			deadline := time.Now().Add(maxWait)
			for !bytes.Contains(pending, []byte{0xAC}) {
				if time.Now().After(deadline) {
					return false
				}
				type res struct {
					n   int
					err error
				}
				ch := make(chan res, 1)
				go func() { n, err := h.Read(buf); ch <- res{n, err} }()
				r := <-ch
				if r.err != nil {
					closed = true
					return false
				}
				pending = append(pending, buf[:r.n]...)
			}
			i := bytes.IndexByte(pending, 0xAC)
			frame := string(pending[:i])
			pending = pending[i+1:]
			switch {
			case strings.HasPrefix(frame, ".syn"):
				obs = append(obs, "syn")
			case strings.HasPrefix(frame, "f") && strings.Contains(frame, ":"):
				f := strings.TrimSuffix(frame, "\n")
				obs = append(obs, "l"+strings.Replace(strings.TrimPrefix(f, "f"), ":", ".", 1))
			default:
				obs = append(obs, "m")
			}
			return true
		}
		for _, op := range strings.Split(a[2], ",") {
			switch op[0] {
			case 'C':
				i := atoi(op[1:])
				before := atomic.LoadInt32(new(int32))
				_ = before
				cmd := "cat: " + files[i] + " regex:noop "
				go h.Write([]byte("protocol 4.1 base64 " + base64.StdEncoding.EncodeToString([]byte(cmd)) + ";"))
				time.Sleep(3 * time.Millisecond)
				obs = append(obs, fmt.Sprintf("c%d", i))
			case 'I':
				for k := 0; k < 400 && h.VerifC02Active() != 0; k++ {
					time.Sleep(2 * time.Millisecond)
				}
				time.Sleep(5 * time.Millisecond)
				if h.VerifC02Active() == 0 {
					obs = append(obs, "idle")
				}
			case 'R':
				for k := 0; k < atoi(op[1:]); k++ {
					if !readFrame(1500*time.Millisecond) || obs[len(obs)-1] == "syn" {
						break
					}
				}
			case 'T':
				time.Sleep(time.Duration(atoi(op[1:])) * time.Millisecond)
			case 'E':
				for {
					if !readFrame(2500 * time.Millisecond) {
						break
					}
					if obs[len(obs)-1] == "syn" {
						// what the client does: acknowledge and leave
						go h.Write([]byte("protocol 4.1 base64 " + base64.StdEncoding.EncodeToString([]byte(".ack close connection")) + ";"))
						break
					}
				}
			}
		}
		h.Shutdown()
		_ = closed
		return strings.Join(obs, ",")
	}

	// c02.e2e <transport: serverless|ssh> <files n0+n1+..> <delay ms per read> <chunk bytes>
	// the real dcat binary with its stdout consumed slowly; returns what arrived
	ops["c02.e2e"] = func(a []string) string {
		var sizes []int
		for _, n := range strings.Split(a[1], "+") {
			sizes = append(sizes, atoi(n))
		}
		return c02run(a[0], sizes, atoi(a[2]), atoi(a[3]), 0, 0)
	}

	// c02.long <files n0+n1+..> <pad bytes> <every k-th line> : serverless dcat of files some of whose lines are long (several
	// KiB: beyond any small read buffer, below MaxLineLength): every file must still arrive completely, the lines behind a
	// long one included
	ops["c02.long"] = func(a []string) string {
		var sizes []int
		for _, n := range strings.Split(a[0], "+") {
			sizes = append(sizes, atoi(n))
		}
		c02pad, c02padEvery = atoi(a[1]), atoi(a[2])
		defer func() { c02pad, c02padEvery = 0, 0 }()
		return c02run("serverless", sizes, 0, 32768, 0, 0)
	}

	// c02.bad <transport> <n bad> <n good after> <lines of the first file> <hold ms>
	// one session: a first file larger than pipe + queue (held back as in c02.many), then <n bad> files the reader
	// cannot start on (named *.gz, not gzip data), then good files queued behind the cat limit.  Every good file
	// must arrive completely and the session must end by itself.
	ops["c02.bad"] = func(a []string) string {
		sizes := []int{atoi(a[3])}
		for i := 0; i < atoi(a[2]); i++ {
			sizes = append(sizes, 3+i)
		}
		return c02run(a[0], sizes, 0, 32768, atoi(a[4]), atoi(a[1]))
	}

	// c02.many <transport> <n files> <lines of the first file> <hold ms>
	// many files in ONE session: the first file is larger than pipe + queue, and the harness reads nothing
	// for <hold ms>, so its reader is still blocked (the session cannot go idle) while the client submits
	// every command; then everything is read.  Every file must arrive completely.
	ops["c02.many"] = func(a []string) string {
		n := atoi(a[1])
		sizes := []int{atoi(a[2])}
		for i := 1; i < n; i++ {
			sizes = append(sizes, 3)
		}
		return c02run(a[0], sizes, 0, 32768, atoi(a[3]), 0)
	}
}

func c02run(transport string, sizes []int, delay, chunk, hold, bad int) string {
	var files []string
	var c *cluster
	dir := ""
	if transport == "ssh" {
		c = startCluster(1, map[string]interface{}{"MaxLineLength": 1024, "MaxConcurrentCats": 2})
		defer c.stop()
		dir = filepath.Join(c.dir, "data")
	} else {
		d, err := os.MkdirTemp(os.Getenv("VERIF_WORK"), "c02e-")
		if err != nil {
			panic(err)
		}
		defer os.RemoveAll(d)
		dir = d
	}
	var good []string
	for i, n := range sizes {
		f := c02file(dir, i, n)
		files = append(files, f)
		good = append(good, f)
		if i == 0 {
			// files the reader cannot start on come right after the first one
			for k := 0; k < bad; k++ {
				p := filepath.Join(dir, fmt.Sprintf("bad%d.gz", k))
				os.WriteFile(p, []byte("this is not gzip data\n"), 0o644)
				files = append(files, p)
			}
		}
	}
	args := []string{"--plain", "--cfg", "none", "--logger", "stdout", "--logLevel", "error"}
	var cmd *exec.Cmd
	if c != nil {
		args = append(args, "--trustAllHosts", "--key", c.keyFile, "--user", c.user, "--servers", c.servers())
	}
	args = append(args, "--files", strings.Join(files, ","))
	cmd = exec.Command(filepath.Join(os.Getenv("VERIF_BIN"), "dcat"), args...)
	if c != nil {
		cmd.Dir = filepath.Join(c.dir, "home")
		cmd.Env = append(os.Environ(), "HOME="+filepath.Join(c.dir, "home"), "SSH_AUTH_SOCK=")
	}
	devnull, _ := os.Open(os.DevNull)
	defer devnull.Close()
	cmd.Stdin = devnull
	pr, pw, _ := os.Pipe()
	cmd.Stdout = pw
	if err := cmd.Start(); err != nil {
		panic(err)
	}
	pw.Close()
	// a client that never ends is killed: the read loop below then sees the end of the pipe
	overall := time.AfterFunc(time.Duration(hold)*time.Millisecond+60*time.Second, func() { cmd.Process.Kill() })
	defer overall.Stop()
	if hold > 0 {
		time.Sleep(time.Duration(hold) * time.Millisecond)
	}
	var out bytes.Buffer
	b := make([]byte, chunk)
	for {
		n, err := pr.Read(b)
		out.Write(b[:n])
		if err != nil {
			break
		}
		if delay > 0 {
			time.Sleep(time.Duration(delay) * time.Millisecond)
		}
	}
	status := 0
	done := make(chan error, 1)
	go func() { done <- cmd.Wait() }()
	select {
	case err := <-done:
		if err != nil {
			if ee, ok := err.(*exec.ExitError); ok {
				status = ee.ExitCode()
			} else {
				status = -2
			}
		}
	case <-time.After(30 * time.Second):
		cmd.Process.Kill()
		status = -9
	}
	// per file: which line numbers arrived, in order
	per := map[string][]string{}
	for _, l := range strings.Split(out.String(), "\n") {
		if l == "" {
			continue
		}
		if (bad > 0 || c02pad > 0) && strings.HasPrefix(l, "SERVER|") {
			continue // the server's error message about a file it cannot read
		}
		p := strings.SplitN(l, ":", 2)
		if len(p) != 2 || !strings.HasPrefix(p[0], "f") {
			return "MALFORMED " + hx([]byte(l))
		}
		if sp := strings.IndexByte(p[1], ' '); sp >= 0 {
			if strings.Trim(p[1][sp+1:], "p") != "" {
				return "MALFORMED " + hx([]byte(l[:40]))
			}
			p[1] = p[1][:sp] // the padding of a long line
		}
		per[p[0]] = append(per[p[0]], p[1])
	}
	var parts []string
	for i := range good {
		k := fmt.Sprintf("f%d", i)
		parts = append(parts, k+"="+compress(per[k]))
	}
	return fmt.Sprintf("%d;%s", status, strings.Join(parts, "&"))
}

// compress renders 1,2,3,...,n as "1..n" when the sequence is exactly that
func compress(l []string) string {
	if len(l) == 0 {
		return "none"
	}
	ok := true
	for i, v := range l {
		if v != fmt.Sprint(i+1) {
			ok = false
		}
	}
	if ok {
		return fmt.Sprintf("1..%d", len(l))
	}
	return strings.Join(l, ",")
}
