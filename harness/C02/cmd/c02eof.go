//go:build verif

package main

import (
	"bytes"
	"fmt"
	"os"
	"os/exec"
	"path/filepath"
	"strings"
	"syscall"
	"time"
)

func init() {
	// c02.eofstall <line bytes> <extra lines> <hold ms>
	// The consumer stalls exactly at the end of the file: the file holds as many lines as fit into the stdout pipe
	// plus <extra>, and the harness reads nothing for <hold ms> (longer than every timeout of the close handshake),
	// then everything.  The session has to wait and then deliver every line; exit status 0.
	ops["c02.eofstall"] = func(a []string) string {
		lineBytes, extra, hold := atoi(a[0]), atoi(a[1]), atoi(a[2])
		dir, err := os.MkdirTemp(os.Getenv("VERIF_WORK"), "c02s-")
		if err != nil {
			panic(err)
		}
		defer os.RemoveAll(dir)
		pr, pw, _ := os.Pipe()
		pipeSize := 65536
		if r, _, errno := syscall.Syscall(syscall.SYS_FCNTL, pw.Fd(), 1032 /* F_GETPIPE_SZ */, 0); errno == 0 && r > 0 {
			pipeSize = int(r)
		}
		n := pipeSize/lineBytes + extra
		var sb strings.Builder
		for k := 1; k <= n; k++ {
			l := fmt.Sprintf("line %d ", k)
			sb.WriteString(l + strings.Repeat("x", lineBytes-1-len(l)) + "\n")
		}
		path := filepath.Join(dir, "eof.txt")
		os.WriteFile(path, []byte(sb.String()), 0o644)
		cmd := exec.Command(filepath.Join(os.Getenv("VERIF_BIN"), "dcat"), "--plain", "--cfg", "none", "--logger", "stdout", "--logLevel", "error", "--files", path)
		devnull, _ := os.Open(os.DevNull)
		defer devnull.Close()
		cmd.Stdin = devnull
		cmd.Stdout = pw
		if err := cmd.Start(); err != nil {
			panic(err)
		}
		pw.Close()
		time.Sleep(time.Duration(hold) * time.Millisecond)
		var out bytes.Buffer
		b := make([]byte, 65536)
		for {
			k, err := pr.Read(b)
			out.Write(b[:k])
			if err != nil {
				break
			}
		}
		status := 0
		done := make(chan error, 1)
		go func() { done <- cmd.Wait() }()
		select {
		case err := <-done:
			if err != nil {
				if ee, ok := err.(*exec.ExitError); ok {
					status = ee.ExitCode()
				} else {
					status = -2
				}
			}
		case <-time.After(30 * time.Second):
			cmd.Process.Kill()
			status = -9
		}
		got := 0
		for i, l := range strings.Split(strings.TrimSuffix(out.String(), "\n"), "\n") {
			if strings.HasPrefix(l, fmt.Sprintf("line %d ", i+1)) && len(l) == lineBytes-1 {
				got++
			}
		}
		return fmt.Sprintf("%d;lines=%d/%d", status, got, n)
	}
}
