//go:build verif

package main

import (
	"encoding/base64"
	"os"
	"path/filepath"
	"sort"
	"strings"
	"sync/atomic"
	"time"

	"github.com/mimecast/dtail/internal/config"
	serverHandlers "github.com/mimecast/dtail/internal/server/handlers"
	user "github.com/mimecast/dtail/internal/user/server"
)

func init() {
	// c07.globid <glob spelling, @R = root of a fixed tree>
	// A real cat session in non-plain mode over several files reached through one glob, spelled the way a
	// client may spell it (doubled slashes, ./, .., wildcards in directory components).  Every file's lines
	// carry its own path; reported: which source identifier(s) the lines of each file were labelled with.
	// After '#': the cleaned glob and the paths it matches (Go's filepath.Clean / Glob), for the model.
	ops["c07.globid"] = func(a []string) string {
		root, err := os.MkdirTemp(os.Getenv("VERIF_WORK"), "c07g-")
		if err != nil {
			panic(err)
		}
		defer os.RemoveAll(root)
		for _, rel := range []string{"logs/web1/app.log", "logs/web2/app.log", "logs/web3/app.log", "logs/db/app.log",
			"logs/web1/err.log", "logs/x/keep", "other/web1/app.log"} {
			p := filepath.Join(root, rel)
			os.MkdirAll(filepath.Dir(p), 0o755)
			os.WriteFile(p, []byte(strings.Repeat("F:"+p+"\n", 3)), 0o644)
		}
		config.Server.MaxLineLength = 4096
		config.Server.Permissions.Default = []string{"^/.*"}
		config.Server.Permissions.Users = nil
		glob := strings.ReplaceAll(string(unhex(a[0])), "@R", root)
		u, err := user.New("verif", "10.0.0.9:1")
		if err != nil {
			return "nouser#-"
		}
		h := serverHandlers.NewServerHandler(u, make(chan struct{}, 8), make(chan struct{}, 8))
		h.VerifSetModes(false, false, true)
		var last int64
		touch := func() { atomic.StoreInt64(&last, time.Now().UnixNano()) }
		touch()
		ids := map[string]map[string]bool{}
		stop, done := make(chan struct{}), make(chan struct{})
		go func() {
			defer close(done)
			for {
				select {
				case l := <-h.VerifLines():
					c := strings.TrimSpace(l.Content.String())
					if strings.HasPrefix(c, "F:") {
						if ids[c[2:]] == nil {
							ids[c[2:]] = map[string]bool{}
						}
						ids[c[2:]][l.SourceID] = true
					}
					touch()
				case <-h.VerifServerMessages():
					touch()
				case <-stop:
					return
				}
			}
		}()
		cmd := "cat: " + glob + " regex:noop "
		go h.Write([]byte("protocol 4.1 base64 " + base64.StdEncoding.EncodeToString([]byte(cmd)) + ";"))
		deadline := time.Now().Add(3 * time.Second)
		for time.Now().Before(deadline) {
			if time.Duration(time.Now().UnixNano()-atomic.LoadInt64(&last)) > 200*time.Millisecond {
				break
			}
			time.Sleep(5 * time.Millisecond)
		}
		close(stop)
		<-done
		h.Shutdown()
		var pairs []string
		for p, set := range ids {
			var l []string
			for id := range set {
				l = append(l, hx([]byte(id)))
			}
			sort.Strings(l)
			pairs = append(pairs, hx([]byte(p))+"="+strings.Join(l, "+"))
		}
		sort.Strings(pairs)
		clean := filepath.Clean(glob)
		paths, _ := filepath.Glob(clean)
		var ps []string
		for _, p := range paths {
			if fi, err := os.Stat(p); err == nil && fi.Mode().IsRegular() {
				ps = append(ps, hx([]byte(p)))
			}
		}
		sort.Strings(ps)
		res := strings.Join(pairs, "|")
		if res == "" {
			res = "-"
		}
		return res + "#" + hx([]byte(clean)) + ";" + strings.Join(ps, ",")
	}
}
