//go:build verif

package main

import (
	"bytes"
	"context"
	"fmt"
	"os"
	"path/filepath"
	"strings"
	"sync"

	"github.com/mimecast/dtail/internal/config"
	"github.com/mimecast/dtail/internal/io/fs"
	"github.com/mimecast/dtail/internal/lcontext"
	"github.com/mimecast/dtail/internal/regex"
	serverHandlers "github.com/mimecast/dtail/internal/server/handlers"
	user "github.com/mimecast/dtail/internal/user/server"
)

func init() {
	// c07.pipe <bufLen> <sources: <nlines>x<linelen>;...>
	// several real cat readers run concurrently into ONE real server handler (non-plain mode); the
	// harness reads with a transport buffer of bufLen bytes, cuts the stream at the message delimiter
	// and checks every REMOTE record against the line it claims to be: source i, line k is
	// "src=<i> n=<k> " padded with the letter of its source to its length.  Result per source:
	// "<i>=1..n" when exactly the lines 1..n arrived in order and intact, else what went wrong.
	// c07.grep <bufLen> <sources> <mod 2|5> : the same with grep readers and an expression that selects the lines whose
	// number is a multiple of mod ("n=…[05] "): each delivered record must still carry the line's number IN THE FILE
	ops["c07.grep"] = func(a []string) string { return c07pipe(a, atoi(a[2])) }
	ops["c07.pipe"] = func(a []string) string { return c07pipe(a, 0) }
}

func c07pipe(a []string, mod int) string {
	{
		bufLen := atoi(a[0])
		config.Server.MaxLineLength = 1 << 20
		dir, err := os.MkdirTemp(os.Getenv("VERIF_WORK"), "c07p-")
		if err != nil {
			panic(err)
		}
		defer os.RemoveAll(dir)
		type src struct {
			n, ll int
			path  string
		}
		var srcs []src
		lineOf := func(i, k, ll int) string {
			l := fmt.Sprintf("src=%d n=%d ", i, k)
			if len(l) < ll {
				l += strings.Repeat(string(rune('a'+i%26)), ll-len(l))
			}
			return l
		}
		for i, spec := range strings.Split(a[1], ";") {
			f := strings.Split(spec, "x")
			s := src{n: atoi(f[0]), ll: atoi(f[1]), path: filepath.Join(dir, fmt.Sprintf("s%d.log", i))}
			var sb strings.Builder
			for k := 1; k <= s.n; k++ {
				sb.WriteString(lineOf(i, k, s.ll+k%3))
				sb.WriteByte('\n')
			}
			os.WriteFile(s.path, []byte(sb.String()), 0o644)
			srcs = append(srcs, s)
		}
		u, err := user.New("verif", "local")
		if err != nil {
			panic(err)
		}
		sh := serverHandlers.NewServerHandler(u, make(chan struct{}, 8), make(chan struct{}, 8))
		sh.VerifSetModes(false, false, true)
		ctx, cancel := context.WithCancel(context.Background())
		defer cancel()
		var wg sync.WaitGroup
		for i, s := range srcs {
			wg.Add(1)
			go func(i int, s src) {
				defer wg.Done()
				reader := fs.NewCatFile(s.path, fmt.Sprintf("id%d", i), sh.VerifServerMessages())
				re := regex.NewNoop()
				if mod > 0 {
					digits := map[int]string{2: "02468", 5: "05"}[mod]
					var err error
					if re, err = regex.New("n=[0-9]*["+digits+"] ", regex.Default); err != nil {
						panic(err)
					}
				}
				reader.Start(ctx, lcontext.LContext{}, sh.VerifLines(), re)
			}(i, s)
		}
		done := make(chan struct{})
		go func() { wg.Wait(); close(done) }()
		stream := bytes.Join(drainServerHandler(sh, bufLen, done), nil)
		next := make([]int, len(srcs))
		bad := make([]string, len(srcs))
		for _, m := range bytes.Split(stream, []byte{0xac}) {
			if len(m) == 0 {
				continue
			}
			p := strings.SplitN(string(m), "|", 6)
			if len(p) != 6 || p[0] != "REMOTE" || !strings.HasPrefix(p[4], "id") {
				if len(m) > 60 {
					m = m[:60]
				}
				return "MALFORMED " + hx(m)
			}
			i, k := atoi(p[4][2:]), atoi(p[3])
			if i < 0 || i >= len(srcs) {
				return "UNKNOWN-SOURCE " + p[4]
			}
			if bad[i] != "" {
				continue
			}
			want := lineOf(i, k, srcs[i].ll+k%3) + "\n"
			switch {
			case (mod == 0 && k != next[i]+1) || (mod > 0 && (k%mod != 0 || k != next[i]+mod)):
				bad[i] = fmt.Sprintf("ORDER(%d after %d)", k, next[i])
			case p[5] != want:
				d := 0
				for d < len(want) && d < len(p[5]) && want[d] == p[5][d] {
					d++
				}
				bad[i] = fmt.Sprintf("CONTENT(line %d differs at byte %d, len %d want %d)", k, d, len(p[5]), len(want))
			default:
				next[i] = k
			}
		}
		var parts []string
		for i := range srcs {
			if bad[i] != "" {
				parts = append(parts, fmt.Sprintf("%d=%s", i, bad[i]))
			} else {
				parts = append(parts, fmt.Sprintf("%d=1..%d", i, next[i]))
			}
		}
		return strings.Join(parts, "&")
	}
}
