//go:build verif

package main

import (
	"fmt"
	"strings"
	"sync"
	"time"

	"github.com/mimecast/dtail/internal/io/dlog"
)

func init() {
	// c07.pause <sources> <lines per source> <pause cycles>
	// The stdout logger is what serialises the messages of all connections.  It can be paused (the interactive
	// host-key prompt, the statistics display after Ctrl+C) and resumed.  <sources> writers print numbered records
	// through the real logger while it is paused and resumed <cycles> times; the captured output must hold, for
	// every source, exactly its records 1..n, whole and in order.
	ops["c07.pause"] = func(a []string) string {
		ns, n, cycles := atoi(a[0]), atoi(a[1]), atoi(a[2])
		out := captureStdout(func() {
			var writers sync.WaitGroup
			for s := 0; s < ns; s++ {
				writers.Add(1)
				go func(s int) {
					defer writers.Done()
					for k := 1; k <= n; k++ {
						dlog.Client.Raw(fmt.Sprintf("REMOTE|host%d|100|%d|id%d|payload %d of source %d\n", s, k, s, k, s))
					}
				}(s)
			}
			pauserDone := make(chan struct{})
			go func() {
				defer close(pauserDone)
				for c := 0; c < cycles; c++ {
					dlog.Client.Pause()
					time.Sleep(2 * time.Millisecond)
					dlog.Client.Resume()
					time.Sleep(500 * time.Microsecond)
				}
			}()
			writers.Wait()
			// a pause that found no writer any more is released by filler lines (not judged)
			for {
				select {
				case <-pauserDone:
					return
				default:
					dlog.Client.Raw("FILLER\n")
					time.Sleep(200 * time.Microsecond)
				}
			}
		})
		next := make([]int, ns)
		bad := make([]string, ns)
		for _, l := range strings.Split(strings.TrimSuffix(string(out), "\n"), "\n") {
			if l == "FILLER" || l == "" {
				continue
			}
			var s, k, s2, k2, s3 int
			if c, err := fmt.Sscanf(l, "REMOTE|host%d|100|%d|id%d|payload %d of source %d", &s, &k, &s2, &k2, &s3); err != nil || c != 5 ||
				s != s2 || s != s3 || k != k2 || s < 0 || s >= ns {
				return "MALFORMED " + hx([]byte(l))
			}
			if bad[s] != "" {
				continue
			}
			if k != next[s]+1 {
				bad[s] = fmt.Sprintf("ORDER(%d after %d)", k, next[s])
			} else {
				next[s] = k
			}
		}
		var parts []string
		for s := 0; s < ns; s++ {
			if bad[s] != "" {
				parts = append(parts, fmt.Sprintf("%d=%s", s, bad[s]))
			} else {
				parts = append(parts, fmt.Sprintf("%d=1..%d", s, next[s]))
			}
		}
		return strings.Join(parts, "&")
	}
}
