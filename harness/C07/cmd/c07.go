//go:build verif

package main

import (
	"bytes"
	"fmt"
	"regexp"
	"sort"
	"strings"
	"time"

	clientHandlers "github.com/mimecast/dtail/internal/clients/handlers"
)

var recordRe = regexp.MustCompile(`^REMOTE\|([^|]*)\|([ 0-9]{3})\|([0-9]+)\|([^|]*)\|(.*)$`)

// groupRecords parses the client's output line by line: every line must be exactly one
// REMOTE record (server/client log lines are skipped); records are grouped by source
// (host|file id) keeping their order.
func groupRecords(out []byte) string {
	groups := map[string][]string{}
	var keys []string
	text := string(out)
	lines := strings.Split(text, "\n")
	if len(lines) > 0 && lines[len(lines)-1] == "" {
		lines = lines[:len(lines)-1]
	}
	for _, l := range lines {
		if strings.HasPrefix(l, "SERVER|") || strings.HasPrefix(l, "CLIENT|") {
			continue
		}
		m := recordRe.FindStringSubmatch(l)
		if m == nil {
			return "MALFORMED " + hx([]byte(l))
		}
		k := m[1] + "|" + m[4]
		if _, ok := groups[k]; !ok {
			keys = append(keys, k)
		}
		groups[k] = append(groups[k], fmt.Sprintf("%s:%s:%s", m[3], strings.TrimSpace(m[2]), hx([]byte(m[5]))))
	}
	sort.Strings(keys)
	var parts []string
	for _, k := range keys {
		parts = append(parts, k+"="+strings.Join(groups[k], ","))
	}
	if len(parts) == 0 {
		return "nothing"
	}
	return strings.Join(parts, " ")
}

func init() {
	// c07.multi <nservers> <nfiles> <nlines> <linelen> <maxlinelength>
	// real dserver processes (own host names), real dcat client over SSH, several files per
	// server through a glob.  Every file line describes itself: "src=<file> n=<k> <padding>".
	// The output is returned as is (hex) for the model/spec to check line by line.
	ops["c07.multi"] = func(a []string) string {
		ns, nf, nl, ll, mll := atoi(a[0]), atoi(a[1]), atoi(a[2]), atoi(a[3]), atoi(a[4])
		c := startCluster(ns, map[string]interface{}{"MaxLineLength": mll, "MaxConcurrentCats": 4})
		defer c.stop()
		for f := 0; f < nf; f++ {
			var sb strings.Builder
			for k := 1; k <= nl; k++ {
				line := fmt.Sprintf("src=f%d.log n=%d ", f, k)
				for len(line) < ll {
					line += "x"
				}
				sb.WriteString(line + "\n")
			}
			c.dataFile(fmt.Sprintf("logs/f%d.log", f), []byte(sb.String()))
		}
		out, status := c.client(60*time.Second, "dcat", "--noColor", "--files", c.dir+"/data/logs/*.log")
		return fmt.Sprintf("%d;%s", status, groupRecords(out))
	}

	// c07.sched <nconn> <schedule> : n real client handlers (one per connection, as baseclient.Start
	// creates them) fed with transport chunks in the order of the schedule; what the stdout logger
	// printed is reported line by line as <length>:<fnv1a32>.  A chunk is <conn>:<part>.<part>...,
	// a part is hex or R<len>x<hh> (a run of one byte).
	ops["c07.sched"] = func(a []string) string {
		n := atoi(a[0])
		var hs []*clientHandlers.ClientHandler
		for i := 0; i < n; i++ {
			hs = append(hs, clientHandlers.NewClientHandler(fmt.Sprintf("srv%d", i)))
		}
		type chunk struct {
			conn int
			data []byte
		}
		var sched []chunk
		for _, c := range strings.Split(a[1], ",") {
			p := strings.SplitN(c, ":", 2)
			var data []byte
			for _, part := range strings.Split(p[1], ".") {
				if strings.HasPrefix(part, "R") {
					lx := strings.SplitN(part[1:], "x", 2)
					data = append(data, bytes.Repeat(unhex(lx[1]), atoi(lx[0]))...)
				} else {
					data = append(data, unhex(part)...)
				}
			}
			sched = append(sched, chunk{atoi(p[0]), data})
		}
		out := captureStdout(func() {
			for _, c := range sched {
				hs[c.conn].Write(c.data)
			}
		})
		return digestLines(out)
	}
}

// digestLines renders output line by line (a line ends with its newline) as <length>:<fnv1a32>
func digestLines(out []byte) string {
	if len(out) == 0 {
		return "nothing"
	}
	var parts []string
	for len(out) > 0 {
		i := bytes.IndexByte(out, '\n')
		var l []byte
		if i < 0 {
			l, out = out, nil
		} else {
			l, out = out[:i+1], out[i+1:]
		}
		h := uint32(2166136261)
		for _, b := range l {
			h = (h ^ uint32(b)) * 16777619
		}
		parts = append(parts, fmt.Sprintf("%d:%08x", len(l), h))
	}
	return strings.Join(parts, ",")
}
