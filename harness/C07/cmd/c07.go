//go:build verif

package main

import (
	"fmt"
	"regexp"
	"sort"
	"strings"
	"time"
)

var recordRe = regexp.MustCompile(`^REMOTE\|([^|]*)\|([ 0-9]{3})\|([0-9]+)\|([^|]*)\|(.*)$`)

// groupRecords parses the client's output line by line: every line must be exactly one
// REMOTE record (server/client log lines are skipped); records are grouped by source
// (host|file id) keeping their order.
func groupRecords(out []byte) string {
	groups := map[string][]string{}
	var keys []string
	text := string(out)
	lines := strings.Split(text, "\n")
	if len(lines) > 0 && lines[len(lines)-1] == "" {
		lines = lines[:len(lines)-1]
	}
	for _, l := range lines {
		if strings.HasPrefix(l, "SERVER|") || strings.HasPrefix(l, "CLIENT|") {
			continue
		}
		m := recordRe.FindStringSubmatch(l)
		if m == nil {
			return "MALFORMED " + hx([]byte(l))
		}
		k := m[1] + "|" + m[4]
		if _, ok := groups[k]; !ok {
			keys = append(keys, k)
		}
		groups[k] = append(groups[k], fmt.Sprintf("%s:%s:%s", m[3], strings.TrimSpace(m[2]), hx([]byte(m[5]))))
	}
	sort.Strings(keys)
	var parts []string
	for _, k := range keys {
		parts = append(parts, k+"="+strings.Join(groups[k], ","))
	}
	if len(parts) == 0 {
		return "nothing"
	}
	return strings.Join(parts, " ")
}

func init() {
	// c07.multi <nservers> <nfiles> <nlines> <linelen> <maxlinelength>
	// real dserver processes (own host names), real dcat client over SSH, several files per
	// server through a glob.  Every file line describes itself: "src=<file> n=<k> <padding>".
	// The output is returned as is (hex) for the model/spec to check line by line.
	ops["c07.multi"] = func(a []string) string {
		ns, nf, nl, ll, mll := atoi(a[0]), atoi(a[1]), atoi(a[2]), atoi(a[3]), atoi(a[4])
		c := startCluster(ns, map[string]interface{}{"MaxLineLength": mll, "MaxConcurrentCats": 4})
		defer c.stop()
		for f := 0; f < nf; f++ {
			var sb strings.Builder
			for k := 1; k <= nl; k++ {
				line := fmt.Sprintf("src=f%d.log n=%d ", f, k)
				for len(line) < ll {
					line += "x"
				}
				sb.WriteString(line + "\n")
			}
			c.dataFile(fmt.Sprintf("logs/f%d.log", f), []byte(sb.String()))
		}
		out, status := c.client(60*time.Second, "dcat", "--noColor", "--files", c.dir+"/data/logs/*.log")
		return fmt.Sprintf("%d;%s", status, groupRecords(out))
	}
}
