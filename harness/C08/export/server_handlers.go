//go:build verif

package handlers

import "github.com/mimecast/dtail/internal/io/line"

// Accessors for the /verif harness (C08): observe what a session serves.
func (h *ServerHandler) VerifC08Lines() chan *line.Line      { return h.lines }
func (h *ServerHandler) VerifC08ServerMessages() chan string { return h.serverMessages }
