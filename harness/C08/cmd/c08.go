//go:build verif

package main

import (
	"encoding/base64"
	"fmt"
	"os"
	"path/filepath"
	"regexp"
	"sort"
	"strings"
	"sync/atomic"
	"syscall"
	"time"

	"github.com/mimecast/dtail/internal/config"
	serverHandlers "github.com/mimecast/dtail/internal/server/handlers"
	user "github.com/mimecast/dtail/internal/user/server"
)

var treeRoot string

// makeTree builds the fixed directory layout once: regular files (content = "F:<name>"),
// symlinks to files, to directories, to other links, dangling and looping links, a FIFO,
// a directory, a link to a device.
func makeTree() string {
	if treeRoot != "" {
		return treeRoot
	}
	root := filepath.Join(os.Getenv("VERIF_WORK"), fmt.Sprintf("c08tree-%d", os.Getpid()))
	os.RemoveAll(root)
	must := func(err error) {
		if err != nil {
			panic(err)
		}
	}
	for _, d := range []string{"logs", "secret", "dir", "logs/sub"} {
		must(os.MkdirAll(filepath.Join(root, d), 0o755))
	}
	for _, f := range []string{"logs/a.log", "logs/b.log", "logs/sub/c.log", "secret/s.txt", "secret/alpha", "secret/x1"} {
		must(os.WriteFile(filepath.Join(root, f), []byte("F:"+f+"\n"), 0o644))
	}
	must(os.Symlink("secret/s.txt", filepath.Join(root, "link-to-secret")))
	must(os.Symlink("secret", filepath.Join(root, "dirlink")))
	must(os.Symlink("chain2", filepath.Join(root, "chain1")))
	must(os.Symlink("logs/a.log", filepath.Join(root, "chain2")))
	must(os.Symlink("../secret/alpha", filepath.Join(root, "logs/evil.log")))
	must(os.Symlink("nowhere", filepath.Join(root, "dangling")))
	must(os.Symlink("loop", filepath.Join(root, "loop")))
	must(os.Symlink("/dev/null", filepath.Join(root, "dev")))
	must(syscall.Mkfifo(filepath.Join(root, "fifo"), 0o644))
	treeRoot = root
	return root
}

// specRule parses a rule the way the documentation describes it: ["readfiles:"]["!"]regex
func specRule(rule string) (deny bool, re string) {
	rule = strings.TrimPrefix(rule, "readfiles:")
	if strings.HasPrefix(rule, "!") {
		return true, rule[1:]
	}
	return false, rule
}

// oracle data for one path: resolved absolute path, regular?, and per rule compile/match
func pathOracle(path string, rules []string) string {
	resolved, err := filepath.EvalSymlinks(path)
	if err == nil {
		resolved, err = filepath.Abs(resolved)
	}
	if err != nil {
		return "unresolved"
	}
	regular := false
	if info, err := os.Lstat(resolved); err == nil && info.Mode().IsRegular() {
		regular = true
	}
	var bits []string
	for _, r := range rules {
		_, reStr := specRule(r)
		re, err := regexp.Compile(reStr)
		switch {
		case err != nil:
			bits = append(bits, "E")
		case re.MatchString(resolved):
			bits = append(bits, "1")
		default:
			bits = append(bits, "0")
		}
	}
	return fmt.Sprintf("%s,%v,%s", hx([]byte(resolved)), regular, strings.Join(bits, ""))
}

func subst(s string) string { return strings.ReplaceAll(s, "@R", makeTree()) }

func parseRules(arg string) []string {
	var rules []string
	if arg != "-" {
		for _, r := range strings.Split(arg, ",") {
			rules = append(rules, subst(string(unhex(r))))
		}
	}
	return rules
}

func init() {
	// c08.perm <user> <path> <rules> : the real HasFilePermission (cwd = tree root)
	ops["c08.perm"] = func(a []string) string {
		root := makeTree()
		os.Chdir(root)
		rules := parseRules(a[2])
		config.Server.Permissions.Default = rules
		config.Server.Permissions.Users = nil
		path := subst(string(unhex(a[1])))
		u, err := user.New(string(unhex(a[0])), "10.0.0.9:1")
		if err != nil {
			return "nouser#" + pathOracle(path, rules)
		}
		return fmt.Sprintf("%v#%s", u.HasFilePermission(path, "readfiles"), pathOracle(path, rules))
	}

	// c08.cat <glob> <rules> [<command word with options>] : a real read session; which file contents are served
	ops["c08.cat"] = func(a []string) string {
		root := makeTree()
		os.Chdir(root)
		rules := parseRules(a[1])
		config.Server.Permissions.Default = rules
		config.Server.Permissions.Users = nil
		config.Server.MaxLineLength = 1024
		glob := subst(string(unhex(a[0])))
		u, err := user.New("verif", "10.0.0.9:1")
		if err != nil {
			return "nouser#-"
		}
		h := serverHandlers.NewServerHandler(u, make(chan struct{}, 8), make(chan struct{}, 8))
		var last int64
		touch := func() { atomic.StoreInt64(&last, time.Now().UnixNano()) }
		touch()
		var served []string
		msgs := 0
		stop := make(chan struct{})
		done := make(chan struct{})
		go func() {
			defer close(done)
			for {
				select {
				case l := <-h.VerifC08Lines():
					served = append(served, strings.TrimSpace(l.Content.String()))
					touch()
				case m := <-h.VerifC08ServerMessages():
					if !strings.HasPrefix(m, ".") {
						msgs++
					}
					touch()
				case <-stop:
					return
				}
			}
		}()
		// the command word and the options are the client's to choose: none of them may change what is served
		head := "cat:"
		if len(a) > 2 {
			head = string(unhex(a[2]))
		}
		cmd := head + " " + glob + " regex:noop "
		go h.Write([]byte("protocol 4.1 base64 " + base64.StdEncoding.EncodeToString([]byte(cmd)) + ";"))
		deadline := time.Now().Add(3 * time.Second)
		for time.Now().Before(deadline) {
			if time.Duration(time.Now().UnixNano()-atomic.LoadInt64(&last)) > 150*time.Millisecond {
				break
			}
			time.Sleep(5 * time.Millisecond)
		}
		close(stop)
		<-done
		h.Shutdown()
		sort.Strings(served)
		paths, _ := filepath.Glob(filepath.Clean(glob))
		var oracle []string
		for _, p := range paths {
			oracle = append(oracle, pathOracle(p, rules))
		}
		o := strings.Join(oracle, ";")
		if o == "" {
			o = "-"
		}
		s := hx([]byte(strings.Join(served, "|")))
		return fmt.Sprintf("served=%s;warned=%v#%s", s, msgs > 0, o)
	}
}
