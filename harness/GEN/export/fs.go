//go:build verif

package fs

import (
	"bytes"
	"fmt"
	"strings"

	"github.com/mimecast/dtail/internal/regex"
)

// VerifGenStats runs a script on a readFile value's statistics ring, calling exactly the functions
// /verif/extract translates to Lean (tie G): p updatePosition, m/n updateLineMatched/NotMatched,
// t/u updateLineTransmitted/NotTransmitted, x<match01>,<length>,<capacity>,<canSkip01> transmittable.
// The regex is a literal "hit": a raw line matches iff it contains it.
func VerifGenStats(script string) string {
	var f readFile
	f.globID = "gid"
	re, _ := regex.New("hit", regex.Default)
	var out []string
	for _, op := range strings.Split(script, ";") {
		if op == "" {
			continue
		}
		switch op[0] {
		case 'p':
			f.updatePosition()
		case 'm':
			f.updateLineMatched()
		case 'n':
			f.updateLineNotMatched()
		case 't':
			f.updateLineTransmitted()
		case 'u':
			f.updateLineNotTransmitted()
		case 'x':
			var match, length, capacity, skip int
			fmt.Sscanf(op[1:], "%d,%d,%d,%d", &match, &length, &capacity, &skip)
			f.canSkipLines = skip == 1
			raw := "miss\n"
			if match == 1 {
				raw = "a hit\n"
			}
			l, ok := f.transmittable(bytes.NewBufferString(raw), length, capacity, re)
			if ok {
				out = append(out, fmt.Sprintf("T%d/%d/%s/%s", l.Count, l.TransmittedPerc, l.SourceID, strings.TrimSpace(l.Content.String())))
			} else {
				out = append(out, "F")
			}
		}
	}
	bits := func(a [100]bool) string {
		var sb strings.Builder
		for _, b := range a {
			if b {
				sb.WriteByte('1')
			} else {
				sb.WriteByte('0')
			}
		}
		return sb.String()
	}
	return fmt.Sprintf("%s;pos=%d;lines=%d;mc=%d;tc=%d;m=%s;t=%s", strings.Join(out, ","), f.pos, f.lineCount, f.matchCount,
		f.transmitCount, bits(f.matched), bits(f.transmitted))
}
