//go:build verif

package main

import (
	"fmt"
	"sort"
	"strings"

	"regexp"

	"github.com/mimecast/dtail/internal/io/fs"
	"github.com/mimecast/dtail/internal/mapr"
	"github.com/mimecast/dtail/internal/regex"
)

func genSetDump(s *mapr.AggregateSet) string {
	var fk, sk []string
	for k, v := range s.FValues {
		fk = append(fk, fmt.Sprintf("%s=%v", hx([]byte(k)), int64(v)))
	}
	for k, v := range s.SValues {
		sk = append(sk, fmt.Sprintf("%s=%s", hx([]byte(k)), hx([]byte(v))))
	}
	sort.Strings(fk)
	sort.Strings(sk)
	return fmt.Sprintf("S=%d;F=%s;V=%s", s.Samples, strings.Join(fk, ","), strings.Join(sk, ","))
}

// genApply: ops "<keyhex>,<opcode>,<valuehex>,<client01>" joined by "/"
func genApply(s *mapr.AggregateSet, ops string) string {
	var errs strings.Builder
	if ops == "-" {
		return "-"
	}
	for _, op := range strings.Split(ops, "/") {
		p := strings.Split(op, ",")
		err := s.Aggregate(string(unhex(p[0])), mapr.AggregateOperation(atoi(p[1])), string(unhex(p[2])), p[3] == "1")
		if err != nil {
			errs.WriteByte('1')
		} else {
			errs.WriteByte('0')
		}
	}
	return errs.String()
}

func init() {
	// gen.stats <script> : the statistics ring functions of internal/io/fs, exactly those translated to Lean
	ops["gen.stats"] = func(a []string) string { return fs.VerifGenStats(a[0]) }

	// gen.agg <x ops> <y ops> <query hex> : two aggregate sets built with the real Aggregate, then
	// x.Merge(query, y) — the functions of internal/mapr/aggregateset.go translated to Lean
	ops["gen.agg"] = func(a []string) string {
		x, y := mapr.NewAggregateSet(), mapr.NewAggregateSet()
		ex := genApply(x, a[0])
		ey := genApply(y, a[1])
		q, err := mapr.NewQuery(string(unhex(a[2])))
		if err != nil || q == nil {
			return "query-error"
		}
		merr := "0"
		if err := x.Merge(q, y); err != nil {
			merr = "1"
		}
		return fmt.Sprintf("errs=%s|%s;merge=%s;%s", ex, ey, merr, genSetDump(x))
	}

	// gen.regex <new|wire> <invert01> <expression or wire form> <lines: hex,hex,..>
	// new : regex.New(expr, flag) -> Serialize -> Deserialize -> Match on every line (client and server value)
	// wire: regex.Deserialize(wire form as a client may forge it) -> Match on every line
	// After '#': what Go's regexp says (does the expression compile; its verdict per line) for the model's Ext.
	ops["gen.regex"] = func(a []string) string {
		text := string(unhex(a[2]))
		var lines [][]byte
		for _, l := range strings.Split(a[3], ",") {
			lines = append(lines, unhex(l))
		}
		bits := func(m func([]byte) bool) string {
			var sb strings.Builder
			for _, l := range lines {
				if m(l) {
					sb.WriteByte('1')
				} else {
					sb.WriteByte('0')
				}
			}
			return sb.String()
		}
		expr := text
		res := ""
		if a[0] == "new" {
			flag := regex.Default
			if a[1] == "1" {
				flag = regex.Invert
			}
			cl, err := regex.New(text, flag)
			if err != nil {
				res = "new-error"
			} else if ser, err := cl.Serialize(); err != nil {
				res = "serialize-error"
			} else if sv, err := regex.Deserialize(ser); err != nil {
				res = "deserialize-error"
			} else {
				res = hx([]byte(ser)) + ";" + bits(cl.Match) + ";" + bits(sv.Match)
			}
		} else {
			if p := strings.SplitN(text, " ", 2); len(p) == 2 {
				expr = p[1]
			} else {
				expr = ""
			}
			sv, err := regex.Deserialize(text)
			if err != nil {
				res = "deserialize-error"
			} else {
				res = bits(sv.Match)
			}
		}
		re, err := regexp.Compile(expr)
		if err != nil {
			return res + "#0;-"
		}
		return res + "#1;" + bits(re.Match)
	}
}
