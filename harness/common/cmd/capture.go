//go:build verif

package main

import (
	"io"
	"os"
)

// captureStdout runs f with os.Stdout redirected to a pipe and returns what was printed.
// The stdout logger prints with fmt.Print under a mutex, synchronously in the caller.
func captureStdout(f func()) []byte {
	r, w, err := os.Pipe()
	if err != nil {
		panic(err)
	}
	saved := os.Stdout
	os.Stdout = w
	done := make(chan []byte)
	go func() {
		b, _ := io.ReadAll(r)
		done <- b
	}()
	func() {
		defer func() {
			os.Stdout = saved
			w.Close()
		}()
		f()
	}()
	b := <-done
	r.Close()
	return b
}
