//go:build verif

package main

import (
	"bytes"
	"context"
	"os"
	"os/exec"
	"path/filepath"
	"time"

	"github.com/mimecast/dtail/internal/config"
	"github.com/mimecast/dtail/internal/io/fs"
	"github.com/mimecast/dtail/internal/io/line"
	"github.com/mimecast/dtail/internal/lcontext"
	"github.com/mimecast/dtail/internal/regex"
)

var workDir string

func tmpFile(name string, content []byte) string {
	if workDir == "" {
		d, err := os.MkdirTemp("", "verifh")
		if err != nil {
			panic(err)
		}
		workDir = d
	}
	p := filepath.Join(workDir, name)
	if err := os.WriteFile(p, content, 0o644); err != nil {
		panic(err)
	}
	return p
}

type gotLine struct {
	content []byte
	count   uint64
	perc    int
	id      string
}

// runReader runs the real cat reader over a file and returns the delivered lines.
func runReader(path, globID string, m int, ltx lcontext.LContext, re regex.Regex) []gotLine {
	config.Server.MaxLineLength = m
	serverMessages := make(chan string, 10)
	lines := make(chan *line.Line, 100)
	ctx, cancel := context.WithCancel(context.Background())
	defer cancel()
	go func() {
		for range serverMessages {
		}
	}()
	var got []gotLine
	done := make(chan struct{})
	go func() {
		for l := range lines {
			got = append(got, gotLine{append([]byte(nil), l.Content.Bytes()...), l.Count, l.TransmittedPerc, l.SourceID})
		}
		close(done)
	}()
	reader := fs.NewCatFile(path, globID, serverMessages)
	if err := reader.Start(ctx, ltx, lines, re); err != nil {
		panic(err)
	}
	close(lines)
	<-done
	close(serverMessages)
	return got
}

// runBin runs a freshly built dtail binary with stdin=/dev/null and returns stdout.
func runBin(name string, args ...string) ([]byte, int) {
	bin := filepath.Join(os.Getenv("VERIF_BIN"), name)
	ctx, cancel := context.WithTimeout(context.Background(), 60*time.Second)
	defer cancel()
	cmd := exec.CommandContext(ctx, bin, args...)
	devnull, _ := os.Open(os.DevNull)
	defer devnull.Close()
	cmd.Stdin = devnull
	var out bytes.Buffer
	cmd.Stdout = &out
	cmd.Stderr = nil
	cmd.Env = append(os.Environ(), "DTAIL_HOSTNAME_OVERRIDE=vhost")
	err := cmd.Run()
	status := 0
	if err != nil {
		if ee, ok := err.(*exec.ExitError); ok {
			status = ee.ExitCode()
		} else {
			status = -2
		}
	}
	return out.Bytes(), status
}
