//go:build verif

package main

import (
	"bytes"
	"context"
	"encoding/json"
	"fmt"
	"net"
	"os"
	"os/exec"
	"path/filepath"
	"strings"
	"sync/atomic"
	"time"

	dssh "github.com/mimecast/dtail/internal/ssh"

	gossh "golang.org/x/crypto/ssh"
)

// A cluster is a set of real dserver processes (freshly built binary, run as an unprivileged
// user because dserver refuses uid 0) on loopback ports, each with its own host name, plus
// the key material for a client.
type cluster struct {
	dir     string
	ports   []int
	procs   []*exec.Cmd
	keyFile string
	user    string
}

var clusterSeq int32

func pemOnce(name string) []byte {
	p := filepath.Join(os.Getenv("VERIF_WORK"), name)
	if b, err := os.ReadFile(p); err == nil {
		return b
	}
	k, err := dssh.GeneratePrivateRSAKey(2048)
	if err != nil {
		panic(err)
	}
	b := dssh.EncodePrivateKeyToPEM(k)
	tmp := fmt.Sprintf("%s.%d", p, os.Getpid())
	os.WriteFile(tmp, b, 0o644)
	os.Rename(tmp, p)
	return b
}

// clusterBase is the directory the clusters live in: the check's work directory when the
// unprivileged server processes can reach it (every path component searchable by others),
// otherwise a scratch directory of this run under the system's temporary directory.
func clusterBase() string {
	w := os.Getenv("VERIF_WORK")
	ok := w != ""
	for p := w; ok && p != "/" && p != "."; p = filepath.Dir(p) {
		fi, err := os.Stat(p)
		if err != nil || fi.Mode().Perm()&0o001 == 0 {
			ok = false
		}
	}
	if ok {
		return w
	}
	d := filepath.Join(os.TempDir(), fmt.Sprintf("verif-cluster-%d", os.Getpid()))
	os.MkdirAll(d, 0o777)
	os.Chmod(d, 0o777)
	return d
}

func freePort() int {
	l, err := net.Listen("tcp", "127.0.0.1:0")
	if err != nil {
		panic(err)
	}
	defer l.Close()
	return l.Addr().(*net.TCPAddr).Port
}

// startCluster starts n servers with the given "Server" configuration section.
func startCluster(n int, serverCfg map[string]interface{}) *cluster {
	seq := atomic.AddInt32(&clusterSeq, 1)
	dir := filepath.Join(clusterBase(), fmt.Sprintf("cluster-%d-%d", os.Getpid(), seq))
	os.RemoveAll(dir)
	must := func(err error) {
		if err != nil {
			panic(err)
		}
	}
	must(os.MkdirAll(filepath.Join(dir, "home", ".ssh"), 0o777))
	must(os.MkdirAll(filepath.Join(dir, "data"), 0o777))
	os.Chmod(dir, 0o777)
	c := &cluster{dir: dir, user: "verifuser"}
	clientKey := pemOnce("cluster_client_key")
	c.keyFile = filepath.Join(dir, "home", "id_rsa")
	must(os.WriteFile(c.keyFile, clientKey, 0o600))
	signer, err := gossh.ParsePrivateKey(clientKey)
	must(err)
	authLine := gossh.MarshalAuthorizedKey(signer.PublicKey())
	hostKey := pemOnce("cluster_host_key")
	for i := 0; i < n; i++ {
		sd := filepath.Join(dir, fmt.Sprintf("s%d", i))
		must(os.MkdirAll(filepath.Join(sd, "cache"), 0o777))
		must(os.MkdirAll(filepath.Join(sd, "log"), 0o777))
		os.Chmod(sd, 0o777)
		os.Chmod(filepath.Join(sd, "cache"), 0o777)
		os.Chmod(filepath.Join(sd, "log"), 0o777)
		must(os.WriteFile(filepath.Join(sd, "cache", "ssh_host_key"), hostKey, 0o644))
		must(os.WriteFile(filepath.Join(sd, "cache", c.user+".authorized_keys"), authLine, 0o644))
		cfg := map[string]interface{}{"Server": serverCfg}
		b, _ := json.Marshal(cfg)
		must(os.WriteFile(filepath.Join(sd, "dserver.cfg"), b, 0o644))
		port := freePort()
		c.ports = append(c.ports, port)
		cmd := exec.Command("setpriv", "--reuid=65534", "--regid=65534", "--clear-groups",
			filepath.Join(os.Getenv("VERIF_BIN"), "dserver"), "--cfg", "dserver.cfg", "--logger", "none", "--logLevel", "error",
			"--bindAddress", "127.0.0.1", "--port", fmt.Sprint(port))
		cmd.Dir = sd
		cmd.Env = append(os.Environ(), fmt.Sprintf("DTAIL_HOSTNAME_OVERRIDE=host%d", i), "HOME="+sd)
		devnull, _ := os.Open(os.DevNull)
		cmd.Stdin = devnull
		must(cmd.Start())
		c.procs = append(c.procs, cmd)
	}
	for _, p := range c.ports {
		ok := false
		for i := 0; i < 400; i++ {
			if conn, err := net.DialTimeout("tcp", fmt.Sprintf("127.0.0.1:%d", p), 100*time.Millisecond); err == nil {
				conn.Close()
				ok = true
				break
			}
			time.Sleep(10 * time.Millisecond)
		}
		if !ok {
			c.stop()
			panic("dserver did not come up")
		}
	}
	return c
}

func (c *cluster) servers() string {
	var s []string
	for _, p := range c.ports {
		s = append(s, fmt.Sprintf("127.0.0.1:%d", p))
	}
	return strings.Join(s, ",")
}

// dataFile writes a file every server can read.
func (c *cluster) dataFile(name string, content []byte) string {
	p := filepath.Join(c.dir, "data", name)
	os.MkdirAll(filepath.Dir(p), 0o777)
	if err := os.WriteFile(p, content, 0o644); err != nil {
		panic(err)
	}
	return p
}

// client runs a freshly built client binary against the cluster; returns stdout and status.
func (c *cluster) client(timeout time.Duration, bin string, args ...string) ([]byte, int) {
	ctx, cancel := context.WithTimeout(context.Background(), timeout)
	defer cancel()
	full := append([]string{"--cfg", "none", "--logger", "stdout", "--logLevel", "error", "--trustAllHosts",
		"--key", c.keyFile, "--user", c.user, "--servers", c.servers()}, args...)
	cmd := exec.CommandContext(ctx, filepath.Join(os.Getenv("VERIF_BIN"), bin), full...)
	cmd.Dir = filepath.Join(c.dir, "home")
	cmd.Env = append(os.Environ(), "HOME="+filepath.Join(c.dir, "home"), "SSH_AUTH_SOCK=")
	devnull, _ := os.Open(os.DevNull)
	defer devnull.Close()
	cmd.Stdin = devnull
	var out bytes.Buffer
	cmd.Stdout = &out
	err := cmd.Run()
	status := 0
	if err != nil {
		if ee, ok := err.(*exec.ExitError); ok {
			status = ee.ExitCode()
		} else {
			status = -2
		}
	}
	return out.Bytes(), status
}

func (c *cluster) stop() {
	for _, p := range c.procs {
		if p.Process != nil {
			p.Process.Kill()
			p.Wait()
		}
	}
	os.RemoveAll(c.dir)
	if base := filepath.Dir(c.dir); base != os.Getenv("VERIF_WORK") {
		os.Remove(base) // the scratch base of this run, once its last cluster is gone
	}
}
