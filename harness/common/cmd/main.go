//go:build verif

// Command verifharness drives the real dtail code for the /verif correspondence checks.
// It is injected into the module with `go build -overlay`; it never exists in /repo.
//
// Protocol: one case per stdin line `<op> <arg> ...` (arguments are hex strings or
// integers); one result line per case on the protocol stream: `<index>\t<result>`.
package main

import (
	"bufio"
	"bytes"
	"context"
	"encoding/hex"
	"fmt"
	"io"
	"os"
	"strconv"
	"strings"
	"sync"
	"time"

	"github.com/mimecast/dtail/internal/config"
	"github.com/mimecast/dtail/internal/io/dlog"
	"github.com/mimecast/dtail/internal/source"
)

type opFunc func(args []string) string

var ops = map[string]opFunc{}

// protocol stream: the original stdout (os.Stdout itself may be redirected by ops that
// capture what the client prints).
var proto *os.File

func unhex(s string) []byte {
	if s == "-" || s == "" {
		return nil
	}
	b, err := hex.DecodeString(s)
	if err != nil {
		panic("bad hex argument: " + s)
	}
	return b
}

func hx(b []byte) string {
	if len(b) == 0 {
		return "-"
	}
	return hex.EncodeToString(b)
}

func atoi(s string) int {
	n, err := strconv.Atoi(s)
	if err != nil {
		panic("bad int argument: " + s)
	}
	return n
}

func setup(logger string) {
	level := os.Getenv("VERIF_LOGLEVEL")
	if level == "" {
		level = "error"
	}
	args := config.Args{ConfigFile: "none", Logger: logger, LogLevel: level, LogDir: os.TempDir()}
	if os.Getenv("DTAIL_HOSTNAME_OVERRIDE") == "" {
		os.Setenv("DTAIL_HOSTNAME_OVERRIDE", "vhost")
	}
	config.Setup(source.Client, &args, nil)
	config.Client.TermColorsEnable = false
	var wg sync.WaitGroup
	wg.Add(1)
	dlog.Start(context.Background(), &wg, source.Client)
}

func runOne(line string) (res string) {
	fields := strings.Fields(line)
	if len(fields) == 0 {
		return "bad-op"
	}
	f, ok := ops[fields[0]]
	if !ok {
		return "bad-op"
	}
	defer func() {
		if r := recover(); r != nil {
			res = "PANIC " + strings.ReplaceAll(fmt.Sprint(r), "\n", " ")
		}
	}()
	return f(fields[1:])
}

func main() {
	proto = os.Stdout
	logger := "stdout"
	if len(os.Args) > 1 {
		logger = os.Args[1]
	}
	setup(logger)
	// Read every case first and give the process /dev/null as its stdin: serverless read
	// commands look at os.Stdin (a pipe there means "read the pipe instead of the file") and
	// would otherwise consume the remaining cases.
	all, rerr := io.ReadAll(os.Stdin)
	if rerr != nil {
		panic(rerr)
	}
	if devnull, derr := os.Open(os.DevNull); derr == nil {
		os.Stdin = devnull
	}
	in := bufio.NewReaderSize(bytes.NewReader(all), 1<<20)
	out := bufio.NewWriter(proto)
	idx := 0
	for {
		line, err := in.ReadString('\n')
		line = strings.TrimRight(line, "\n")
		if line != "" {
			// announce first, so a crash can be attributed to this case
			fmt.Fprintf(out, "#%d\n", idx)
			out.Flush()
			// watchdog: an operation that does not return (the code under test hangs) must not hang the check
			limit := 120
			if v, err := strconv.Atoi(os.Getenv("VERIF_CASE_TIMEOUT_S")); err == nil && v > 0 {
				limit = v
			}
			done := make(chan string, 1)
			go func(l string) { done <- runOne(l) }(line)
			var res string
			select {
			case res = <-done:
			case <-time.After(time.Duration(limit) * time.Second):
				fmt.Fprintf(out, "%d\tHANG the operation did not return within %d s\n", idx, limit)
				out.Flush()
				os.Exit(3)
			}
			fmt.Fprintf(out, "%d\t%s\n", idx, res)
			out.Flush()
			idx++
		}
		if err != nil {
			break
		}
	}
	// a panic in a goroutine that the last case left behind must still kill the process
	grace := 100
	if g, err := strconv.Atoi(os.Getenv("VERIF_GRACE_MS")); err == nil {
		grace = g
	}
	time.Sleep(time.Duration(grace) * time.Millisecond)
}
