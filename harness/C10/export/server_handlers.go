//go:build verif

package handlers

import (
	"context"

	"github.com/mimecast/dtail/internal/io/line"
	"github.com/mimecast/dtail/internal/lcontext"
)

// Accessors for the /verif harness (C10/C12): observe the decoded command.

type VerifCommand struct {
	Ltx  lcontext.LContext
	Argc int
	Args []string
	Name string
}

// VerifCapture replaces the command callback by one that records the decoded command.
func (h *ServerHandler) VerifCapture(out *[]VerifCommand) {
	h.handleCommandCb = func(ctx context.Context, ltx lcontext.LContext, argc int, args []string, name string) {
		*out = append(*out, VerifCommand{ltx, argc, append([]string(nil), args...), name})
	}
}

func (h *ServerHandler) VerifC10Modes() (quiet, plain, serverless bool) {
	return h.quiet, h.plain, h.serverless
}
func (h *ServerHandler) VerifC10ServerMessages() chan string { return h.serverMessages }
func (h *ServerHandler) VerifC10Lines() chan *line.Line      { return h.lines }
func (h *ServerHandler) VerifC10MaprMessages() chan string   { return h.maprMessages }
func (h *ServerHandler) VerifC10Active() int32               { return h.activeCommands }
