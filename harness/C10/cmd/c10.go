//go:build verif

package main

import (
	"fmt"
	"os"
	"strings"
	"sync"
	"sync/atomic"
	"time"

	"github.com/mimecast/dtail/internal/config"
	maprserver "github.com/mimecast/dtail/internal/mapr/server"
	serverHandlers "github.com/mimecast/dtail/internal/server/handlers"
	user "github.com/mimecast/dtail/internal/user/server"
)

func newServerHandler() *serverHandlers.ServerHandler {
	u, err := user.New("verif", "local")
	if err != nil {
		panic(err)
	}
	return serverHandlers.NewServerHandler(u, make(chan struct{}, 8), make(chan struct{}, 8))
}

func renderCaptured(cmds []serverHandlers.VerifCommand) string {
	var out []string
	for _, c := range cmds {
		var as []string
		for _, a := range c.Args {
			as = append(as, hx([]byte(a)))
		}
		out = append(out, fmt.Sprintf("%s/%d/%s/%d,%d,%d", hx([]byte(c.Name)), c.Argc, strings.Join(as, ","),
			c.Ltx.BeforeContext, c.Ltx.AfterContext, c.Ltx.MaxCount))
	}
	if len(out) == 0 {
		return "none"
	}
	return strings.Join(out, " ")
}

func init() {
	// c10.decode <stream> : the real ServerHandler.Write with a capturing command callback.
	// Reports the dispatched commands, the number of error messages and the session modes.
	ops["c10.decode"] = func(a []string) string {
		stream := unhex(a[0])
		h := newServerHandler()
		var cmds []serverHandlers.VerifCommand
		h.VerifCapture(&cmds)
		var errs int32
		stop := make(chan struct{})
		var wg sync.WaitGroup
		wg.Add(1)
		go func() {
			defer wg.Done()
			for {
				select {
				case <-h.VerifC10ServerMessages():
					atomic.AddInt32(&errs, 1)
				case <-stop:
					for {
						select {
						case <-h.VerifC10ServerMessages():
							atomic.AddInt32(&errs, 1)
						default:
							return
						}
					}
				}
			}
		}()
		h.Write(stream)
		close(stop)
		wg.Wait()
		q, p, s := h.VerifC10Modes()
		h.Shutdown()
		return fmt.Sprintf("%s;errs=%d;modes=%v,%v,%v", renderCaptured(cmds), errs, q, p, s)
	}

	// c10.run <stream> : the real dispatch.  `@F` in a decoded command cannot be expressed
	// here, so the generator is given the path through the VERIF_C10_FILE convention: the
	// harness creates <work>/c10.txt once.  Observation: error-class messages, whether lines
	// or mapreduce messages arrived; a panic anywhere kills the process (reported as CRASH).
	ops["c10.run"] = func(a []string) string {
		stream := unhex(a[0])
		// the generator names the existing file by its path (VERIF_WORK/c10-exists.txt)
		if err := os.WriteFile(os.Getenv("VERIF_WORK")+"/c10-exists.txt", []byte("alpha 1\nbeta 2\n\ngamma 3\n"), 0o644); err != nil {
			panic(err)
		}
		config.Server.MaxLineLength = 1024
		h := newServerHandler()
		var errs, lines, maprs, hidden int32
		var last int64
		touch := func() { atomic.StoreInt64(&last, time.Now().UnixNano()) }
		touch()
		stop := make(chan struct{})
		go func() {
			for {
				select {
				case m := <-h.VerifC10ServerMessages():
					if strings.HasPrefix(m, ".") {
						atomic.AddInt32(&hidden, 1)
					} else {
						atomic.AddInt32(&errs, 1)
					}
					touch()
				case <-h.VerifC10Lines():
					atomic.AddInt32(&lines, 1)
					touch()
				case <-h.VerifC10MaprMessages():
					atomic.AddInt32(&maprs, 1)
					touch()
				case <-stop:
					return
				}
			}
		}()
		// a session whose commands have all finished calls shutdown() synchronously inside
		// Write and then waits up to 5 s for the client's ack: do not wait for that
		go h.Write(stream)
		touch()
		deadline := time.Now().Add(3 * time.Second)
		for time.Now().Before(deadline) {
			idle := time.Duration(time.Now().UnixNano() - atomic.LoadInt64(&last))
			if idle > 120*time.Millisecond {
				break
			}
			time.Sleep(5 * time.Millisecond)
		}
		close(stop)
		h.Shutdown()
		l := 0
		if atomic.LoadInt32(&lines) > 0 {
			l = 1
		}
		return fmt.Sprintf("errs=%d;lines=%d", atomic.LoadInt32(&errs), l)
	}
}

func init() {
	// c10.query <query> : what newMapCommand does with the client's query text: server.NewAggregate
	// (NewQuery, choice of the log format parser).  Outcome class: ok / err / PANIC (recovered by the
	// harness; in the server it would kill the process).
	ops["c10.query"] = func(a []string) string {
		config.Server.MapreduceLogFormat = "default"
		agg, err := maprserver.NewAggregate(string(unhex(a[0])))
		if err != nil {
			return "err"
		}
		agg.Shutdown()
		return "ok"
	}
}
