//go:build verif

package main

import (
	"bytes"
	"fmt"
	"os"
	"path/filepath"
	"sync"
	"sync/atomic"

	"github.com/mimecast/dtail/internal/mapr"
)

func init() {
	// c15.race <groups> <rounds>
	// The client has two writers of one outfile: the periodic reporter (WriteResult(query, false)) and the final
	// report (WriteResult(query, true)); they share the staging files.  Here a reporter goroutine writes interim
	// results in a loop on the real GlobalGroupSet while the main goroutine writes the final result; the moment
	// the final write returns (that is where dmap exits) the outfile must be byte for byte what a single writer
	// produces.  Repeated <rounds> times.
	ops["c15.race"] = func(a []string) string {
		ngroups, rounds := atoi(a[0]), atoi(a[1])
		dir, err := os.MkdirTemp(os.Getenv("VERIF_WORK"), "c15r-")
		if err != nil {
			panic(err)
		}
		defer os.RemoveAll(dir)
		build := func(outfile string) (*mapr.GlobalGroupSet, *mapr.Query) {
			q, err := mapr.NewQuery("select count(x),max(x),last(h) from T group by h order by count(x) outfile " + outfile)
			if err != nil || q == nil {
				panic(fmt.Sprint("query ", err))
			}
			g := mapr.NewGroupSet()
			for i := 0; i < ngroups; i++ {
				key := fmt.Sprintf("host-%05d", i)
				set := g.GetSet(key)
				set.Samples = i + 1
				set.FValues["count(x)"] = float64(i + 1)
				set.FValues["max(x)"] = float64(3 * i)
				set.SValues["last(h)"] = key
			}
			gg := mapr.NewGlobalGroupSet()
			if err := gg.Merge(q, g); err != nil {
				panic(err)
			}
			return gg, q
		}
		// the single-writer reference
		refPath := filepath.Join(dir, "ref.csv")
		rg, rq := build(refPath)
		if err := rg.WriteResult(rq, true); err != nil {
			return "reference-error " + err.Error()
		}
		ref, _ := os.ReadFile(refPath)
		bad := 0
		first := ""
		for r := 0; r < rounds; r++ {
			out := filepath.Join(dir, fmt.Sprintf("out%d.csv", r))
			gg, q := build(out)
			var stop int32
			var wg sync.WaitGroup
			started := make(chan struct{})
			wg.Add(1)
			go func() {
				defer wg.Done()
				close(started)
				for atomic.LoadInt32(&stop) == 0 {
					gg.WriteResult(q, false) // errors of the reporter are the reporter's business
				}
			}()
			<-started
			err := gg.WriteResult(q, true)
			got, _ := os.ReadFile(out)
			atomic.StoreInt32(&stop, 1)
			wg.Wait()
			if err != nil || !bytes.Equal(got, ref) {
				bad++
				if first == "" {
					first = fmt.Sprintf("round %d: err=%v, outfile %d bytes, single writer %d bytes", r, err, len(got), len(ref))
				}
			}
		}
		if bad == 0 {
			return "complete"
		}
		return fmt.Sprintf("TORN in %d of %d rounds (%s)", bad, rounds, first)
	}
}
