//go:build verif

package main

import (
	"bytes"
	"fmt"
	"os"
	"os/exec"
	"path/filepath"
	"regexp"
	"runtime"
	"strconv"
	"strings"

	"github.com/mimecast/dtail/internal/mapr"
)

// buildGroup fills a GroupSet from "key:samples:storage=F|S,storage=F|S;..." (F a number, S hex)
func buildGroup(spec string) *mapr.GroupSet {
	g := mapr.NewGroupSet()
	if spec == "-" {
		return g
	}
	for _, gs := range strings.Split(spec, ";") {
		p := strings.SplitN(gs, ":", 3)
		set := g.GetSet(string(unhex(p[0])))
		set.Samples = atoi(p[1])
		if len(p) < 3 || p[2] == "" {
			continue
		}
		for _, col := range strings.Split(p[2], ",") {
			kv := strings.SplitN(col, "=", 2)
			st := string(unhex(kv[0]))
			fs := strings.SplitN(kv[1], "|", 2)
			if fs[0] != "" {
				f, err := strconv.ParseFloat(fs[0], 64)
				if err != nil {
					panic(err)
				}
				set.FValues[st] = f
			}
			if len(fs) > 1 && fs[1] != "" {
				set.SValues[st] = string(unhex(fs[1]))
			}
		}
	}
	return g
}

var unescape = regexp.MustCompile(`\\x([0-9a-f]{2})`)

func unx(s string) string {
	return unescape.ReplaceAllStringFunc(s, func(m string) string {
		b, _ := strconv.ParseUint(m[2:], 16, 8)
		return string([]byte{byte(b)})
	})
}

func fileState(p string) string {
	b, err := os.ReadFile(p)
	if err != nil {
		return "none"
	}
	return hx(b)
}

var (
	reOpen   = regexp.MustCompile(`^\d+\s+openat\(AT_FDCWD<[^>]*>, "([^"]*)", ([A-Z_|]+)`)
	reWrite  = regexp.MustCompile(`^\d+\s+write\(\d+<([^>]*)>, "([^"]*)"`)
	reRename = regexp.MustCompile(`^\d+\s+rename(?:at2?)?\((?:AT_FDCWD<[^>]*>, )?"([^"]*)", (?:AT_FDCWD<[^>]*>, )?"([^"]*)"`)
)

// parseTrace extracts the operations on files below dir, in order, from a strace log.
func parseTrace(trace, dir string) []string {
	var ops []string
	rel := func(p string) string { return strings.TrimPrefix(p, dir+"/") }
	for _, l := range strings.Split(trace, "\n") {
		// a call interrupted by another thread's event is logged as "<unfinished ...>" (with its
		// arguments) and completed by a "<... resumed>" line (without them)
		if strings.Contains(l, "= -1 ") || strings.Contains(l, "resumed>") {
			continue
		}
		if m := reOpen.FindStringSubmatch(l); m != nil {
			p := unx(m[1])
			if strings.HasPrefix(p, dir+"/") && strings.Contains(m[2], "O_WRONLY") {
				switch {
				case strings.Contains(m[2], "O_TRUNC"):
					ops = append(ops, "T:"+hx([]byte(rel(p))))
				case strings.Contains(m[2], "O_APPEND"):
					ops = append(ops, "A:"+hx([]byte(rel(p))))
				default:
					ops = append(ops, "O?:"+hx([]byte(rel(p))))
				}
			}
		} else if m := reWrite.FindStringSubmatch(l); m != nil {
			p := unx(m[1])
			if strings.HasPrefix(p, dir+"/") {
				ops = append(ops, "W:"+hx([]byte(rel(p)))+":"+hx([]byte(unx(m[2]))))
			}
		} else if m := reRename.FindStringSubmatch(l); m != nil {
			s, d := unx(m[1]), unx(m[2])
			if strings.HasPrefix(s, dir+"/") || strings.HasPrefix(d, dir+"/") {
				ops = append(ops, "R:"+hx([]byte(rel(s)))+">"+hx([]byte(rel(d))))
			}
		}
	}
	return ops
}

func init() {
	// c15.raw <query> <groups> <final> : calls the real WriteResult (run under strace by c15.write)
	ops["c15.raw"] = func(a []string) string {
		runtime.LockOSThread() // all file system calls of this write come from one thread
		q, err := mapr.NewQuery(string(unhex(a[0])))
		if err != nil || q == nil {
			return "query-error"
		}
		g := buildGroup(a[1])
		if err := g.WriteResult(q, a[2] == "1"); err != nil {
			return "error " + err.Error()
		}
		return "done"
	}

	// c15.seq <queryTemplate> <groups> <interim writes> <pre-existing outfile: none|-|hex> : one client run — the periodic
	// reporter writes the (cumulative) result n times with finalResult=false, then the final report writes it once more;
	// the same Query value and group set throughout, as in the client.  Returns the files afterwards.
	ops["c15.seq"] = func(a []string) string {
		dir, err := os.MkdirTemp(os.Getenv("VERIF_WORK"), "c15-")
		if err != nil {
			panic(err)
		}
		defer os.RemoveAll(dir)
		out := filepath.Join(dir, "out.csv")
		if a[3] != "none" {
			if err := os.WriteFile(out, unhex(a[3]), 0o644); err != nil {
				panic(err)
			}
		}
		q, err := mapr.NewQuery(strings.ReplaceAll(string(unhex(a[0])), "@O", out))
		if err != nil || q == nil {
			return "query-error"
		}
		g := buildGroup(a[1])
		for i := 0; i < atoi(a[2]); i++ {
			if err := g.WriteResult(q, false); err != nil {
				return "error " + err.Error()
			}
		}
		if err := g.WriteResult(q, true); err != nil {
			return "error " + err.Error()
		}
		return fmt.Sprintf("out=%s;tmp=%s;query=%s;qtmp=%s", fileState(out), fileState(out+".tmp"), fileState(out+".query"),
			fileState(out+".query.tmp"))
	}

	// c15.write <queryTemplate> <groups> <final> <pre-existing outfile: none|hex> <kill: 0 or k>
	// @O in the query is replaced by the outfile path.  Runs c15.raw in a child under strace;
	// kill=k>0 delivers SIGKILL on entry of the k-th file operation (open/write/rename) on the
	// outfile directory.
	ops["c15.write"] = func(a []string) string {
		dir, err := os.MkdirTemp(os.Getenv("VERIF_WORK"), "c15-")
		if err != nil {
			panic(err)
		}
		defer os.RemoveAll(dir)
		out := filepath.Join(dir, "out.csv")
		// pre-existing state: "<outfile>" or "<outfile>/<outfile.tmp>" (each none | - | hex); a stale
		// .tmp is what a run killed after an interim write leaves behind
		preOut, preTmp := a[3], "none"
		if i := strings.Index(a[3], "/"); i >= 0 {
			preOut, preTmp = a[3][:i], a[3][i+1:]
		}
		if preOut != "none" {
			if err := os.WriteFile(out, unhex(preOut), 0o644); err != nil {
				panic(err)
			}
		}
		if preTmp != "none" {
			if err := os.WriteFile(out+".tmp", unhex(preTmp), 0o644); err != nil {
				panic(err)
			}
		}
		query := strings.ReplaceAll(string(unhex(a[0])), "@O", out)
		self, _ := os.Executable()
		runChild := func(extra ...string) (string, string) {
			tr := filepath.Join(dir, ".trace")
			args := append([]string{"-f", "-y", "-xx", "-s", "100000", "-e", "trace=openat,write,rename,renameat,renameat2", "-o", tr}, extra...)
			args = append(args, self, "none")
			cmd := exec.Command("strace", args...)
			cmd.Stdin = strings.NewReader("c15.raw " + hx([]byte(query)) + " " + a[1] + " " + a[2] + "\n")
			var so bytes.Buffer
			cmd.Stdout = &so
			cmd.Env = append(os.Environ(), "VERIF_LOGLEVEL=none")
			cmd.Run()
			t, _ := os.ReadFile(tr)
			os.Remove(tr)
			return so.String(), string(t)
		}
		kill := atoi(a[4])
		if kill == 0 {
			so, trace := runChild()
			if !strings.Contains(so, "\tdone") {
				return "child-failed " + strings.ReplaceAll(so, "\n", " ")
			}
			opsSeen := parseTrace(trace, dir)
			return fmt.Sprintf("ops=%s;out=%s;tmp=%s;query=%s;qtmp=%s", strings.Join(opsSeen, " "), fileState(out),
				fileState(out+".tmp"), fileState(out+".query"), fileState(out+".query.tmp"))
		}
		// kill enumeration: only system calls on the four paths of this outfile are traced (-P) and the write runs on one
		// locked thread, so a dry run on the same state lists the file operations in order; strace counts injections per
		// system call name, so the k-th operation is the i-th call of its name
		paths := []string{"-P", out, "-P", out + ".tmp", "-P", out + ".query", "-P", out + ".query.tmp"}
		pre := fileState(out)
		_, trace := runChild(paths...)
		var names []string
		for _, l := range strings.Split(trace, "\n") {
			if strings.Contains(l, "resumed>") {
				continue
			}
			for _, n := range []string{"openat", "write", "renameat2", "renameat", "rename"} {
				if strings.Contains(l, " "+n+"(") {
					names = append(names, n)
					break
				}
			}
		}
		// restore the initial state
		for _, f := range []string{"", ".tmp", ".query", ".query.tmp"} {
			os.Remove(out + f)
		}
		if pre != "none" {
			os.WriteFile(out, unhex(pre), 0o644)
		}
		if preTmp != "none" {
			os.WriteFile(out+".tmp", unhex(preTmp), 0o644)
		}
		if kill <= len(names) {
			idx := 0
			for _, n := range names[:kill] {
				if n == names[kill-1] {
					idx++
				}
			}
			runChild(append(paths, "-e", fmt.Sprintf("inject=%s:signal=SIGKILL:when=%d", names[kill-1], idx))...)
		} else {
			runChild(paths...)
		}
		return fmt.Sprintf("killed;out=%s;tmp=%s;query=%s;qtmp=%s", fileState(out), fileState(out+".tmp"),
			fileState(out+".query"), fileState(out+".query.tmp"))
	}
}
