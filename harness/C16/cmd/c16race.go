//go:build verif

package main

import (
	"fmt"
	"sync"

	"github.com/mimecast/dtail/internal/color/brush"
)

func init() {
	// c16.race <goroutines> <lines each>
	// What a client with several servers does: one goroutine per connection colours that server's lines
	// (brush.Colorfy is called before the stdout logger takes its lock).  Every coloured line with its escape
	// sequences removed must be the line itself.  Reported: "same", or the first line that differs.
	ops["c16.race"] = func(a []string) string {
		n, m := atoi(a[0]), atoi(a[1])
		hosts := []string{"a", "mx.b.example.com", "cache-eu-west-1c-0042.internal.example.net", "db7", "10.1.2.3", "srv|x", "h", "web-12.example.org"}
		var mu sync.Mutex
		first := ""
		var wg sync.WaitGroup
		for g := 0; g < n; g++ {
			wg.Add(1)
			go func(g int) {
				defer wg.Done()
				host := hosts[g%len(hosts)]
				if g >= len(hosts) {
					host = fmt.Sprintf("%s-%d", host, g)
				}
				for k := 0; k < m; k++ {
					msg := fmt.Sprintf("REMOTE|%s|100|%d|app.log|INFO|line %d of %s\n", host, k, k, host)
					colored := []byte(brush.Colorfy(msg))
					if v := same(colored, []byte(msg)); v != "same" {
						mu.Lock()
						if first == "" {
							first = "DIFFERS:" + hx([]byte(msg)) + ":" + hx(colored)
						}
						mu.Unlock()
						return
					}
				}
			}(g)
		}
		wg.Wait()
		if first != "" {
			return first
		}
		return "same"
	}
}
