//go:build verif

package main

import (
	"fmt"

	"github.com/mimecast/dtail/internal/config"
	"github.com/mimecast/dtail/internal/mapr"
)

func init() {
	// c16.table <query> <groups (as in c15: key:samples:storage=float|string,...)>
	// The result table a mapreduce client prints (GroupSet.Result), rendered without and with colours: no
	// rendering may crash, and the coloured table without its escape sequences is the uncoloured table.
	ops["c16.table"] = func(a []string) string {
		q, err := mapr.NewQuery(string(unhex(a[0])))
		if err != nil || q == nil {
			return "query-error"
		}
		render := func(colors bool) (out string, failure string) {
			config.Client.TermColorsEnable = colors
			defer func() {
				config.Client.TermColorsEnable = false
				if r := recover(); r != nil {
					failure = fmt.Sprintf("PANIC colours=%v: %v", colors, r)
				}
			}()
			g := buildGroup(a[1])
			res, _, err := g.Result(q, -1)
			if err != nil {
				return "", "error " + err.Error()
			}
			return res, ""
		}
		plain, f1 := render(false)
		if f1 != "" {
			return f1
		}
		coloured, f2 := render(true)
		if f2 != "" {
			return f2
		}
		if sgr.ReplaceAllString(coloured, "") != sgr.ReplaceAllString(plain, "") { // escape sequences that are part of the data go on both sides
			return "DIFF " + hx([]byte(plain)) + " / " + hx([]byte(coloured))
		}
		return "ok"
	}
}
