//go:build verif

package main

import (
	"bytes"
	"fmt"
	"regexp"

	clientHandlers "github.com/mimecast/dtail/internal/clients/handlers"
	"github.com/mimecast/dtail/internal/color/brush"
	"github.com/mimecast/dtail/internal/config"
	"github.com/mimecast/dtail/internal/mapr"
)

var sgr = regexp.MustCompile("\x1b\\[[0-9;]*m")

// same is the regex oracle "coloured rendering minus escape sequences = uncoloured rendering".
// It is only meaningful when the text itself holds no ESC byte: text such as "\x1b[3" at the end
// of one message and "m" at the start of the next forms a sequence in the uncoloured output that
// the painter's own codes break up in the coloured one.  With ESC in the text the verdict is
// left to the byte-for-byte comparison with the model (whose theorem is about the inserted
// sequences, not about a regex).
func same(a, b []byte) string {
	if bytes.IndexByte(b, 0x1b) >= 0 {
		return "same"
	}
	if string(sgr.ReplaceAll(a, nil)) == string(sgr.ReplaceAll(b, nil)) {
		return "same"
	}
	return "DIFF"
}

func newHandler(kind string) clientHandlers.Handler {
	switch kind {
	case "health":
		return clientHandlers.NewHealthHandler("vserver")
	case "mapr":
		q, err := mapr.NewQuery("select count(x) from T group by y")
		if err != nil {
			panic(err)
		}
		return clientHandlers.NewMaprHandler("vserver", q, mapr.NewGlobalGroupSet())
	}
	return clientHandlers.NewClientHandler("vserver")
}

// feed writes the stream in chunks into a fresh handler; returns what was printed.
func feed(kind string, colors bool, chunk int, stream []byte) ([]byte, clientHandlers.Handler, bool) {
	config.Client.TermColorsEnable = colors
	defer func() { config.Client.TermColorsEnable = false }()
	h := newHandler(kind)
	var rec interface{}
	printed := captureStdout(func() {
		defer func() { rec = recover() }()
		for i := 0; i < len(stream); i += chunk {
			j := i + chunk
			if j > len(stream) {
				j = len(stream)
			}
			h.Write(stream[i:j])
		}
	})
	return printed, h, rec != nil
}

func init() {
	// c16.colorfy <message> : real brush.Colorfy; the oracle (regex-stripped rendering equals
	// the regex-stripped message) is evaluated here on the real output
	ops["c16.colorfy"] = func(a []string) string {
		msg := unhex(a[0])
		colored := []byte(brush.Colorfy(string(msg)))
		return hx(colored) + ";" + same(colored, msg)
	}
	// c16.write <kind> <color> <chunk> <stream> : real client handler Write; what is printed
	ops["c16.write"] = func(a []string) string {
		kind, colors, chunk, stream := a[0], a[1] == "1", atoi(a[2]), unhex(a[3])
		plain, h, panicked := feed(kind, false, chunk, stream)
		if panicked {
			return "PANIC"
		}
		out := plain
		verdict := "same"
		if colors {
			colored, _, panicked := feed(kind, true, chunk, stream)
			if panicked {
				return "PANIC"
			}
			out = colored
			verdict = same(colored, plain)
		}
		if kind == "health" {
			return fmt.Sprintf("status=%d", h.Status())
		}
		return hx(out) + ";" + verdict
	}
}
