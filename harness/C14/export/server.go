//go:build verif

package server

// VerifCurrentConnections exposes the connection counter to the /verif harness (C14).
func (s *Server) VerifCurrentConnections() int {
	s.stats.mutex.Lock()
	defer s.stats.mutex.Unlock()
	return s.stats.currentConnections
}
