//go:build verif

package main

import (
	"context"
	"fmt"
	"net"
	"os"
	"path/filepath"
	"strings"
	"time"

	"github.com/mimecast/dtail/internal/config"
	"github.com/mimecast/dtail/internal/server"
	dssh "github.com/mimecast/dtail/internal/ssh"

	gossh "golang.org/x/crypto/ssh"
)

type c14conn struct {
	tcp    net.Conn
	client *gossh.Client
}

func ensureHostKey() string {
	p := filepath.Join(os.Getenv("VERIF_WORK"), "c14_host_key")
	if _, err := os.Stat(p); err != nil {
		k, err := dssh.GeneratePrivateRSAKey(2048)
		if err != nil {
			panic(err)
		}
		tmp := fmt.Sprintf("%s.%d", p, os.Getpid())
		if err := os.WriteFile(tmp, dssh.EncodePrivateKeyToPEM(k), 0o600); err != nil {
			panic(err)
		}
		os.Rename(tmp, p)
	}
	return p
}

func init() {
	// c14.script <max> <ops>: T<i> TCP connect | H<i> handshake with good credentials | B<i> handshake
	// with bad credentials | A<i> connect+handshake | S<i> session channel + shell request | X<i> close.
	// After every op: the server's connection counter and whether the op succeeded.
	ops["c14.script"] = func(a []string) string {
		max := atoi(a[0])
		config.Server.HostKeyFile = ensureHostKey()
		config.Server.MaxConnections = max
		config.Server.SSHBindAddress = "127.0.0.1"
		l, err := net.Listen("tcp", "127.0.0.1:0")
		if err != nil {
			panic(err)
		}
		port := l.Addr().(*net.TCPAddr).Port
		l.Close()
		config.Common.SSHPort = port
		ctx, cancel := context.WithCancel(context.Background())
		defer cancel()
		srv := server.New()
		go srv.Start(ctx)
		addr := fmt.Sprintf("127.0.0.1:%d", port)
		for i := 0; i < 200; i++ {
			if c, err := net.DialTimeout("tcp", addr, 50*time.Millisecond); err == nil {
				c.Close()
				break
			}
			time.Sleep(5 * time.Millisecond)
		}
		settle := func() int {
			last, stable := -999, 0
			for i := 0; i < 300 && stable < 5; i++ {
				time.Sleep(3 * time.Millisecond)
				if c := srv.VerifCurrentConnections(); c == last {
					stable++
				} else {
					last, stable = c, 0
				}
			}
			return last
		}
		// connections the server side really holds: ESTABLISHED sockets whose local port is the listen port
		estab := func() int {
			n := 0
			data, err := os.ReadFile("/proc/self/net/tcp")
			if err != nil {
				return -1
			}
			want := fmt.Sprintf(":%04X", port)
			for _, l := range strings.Split(string(data), "\n")[1:] {
				f := strings.Fields(l)
				if len(f) > 3 && strings.HasSuffix(f[1], want) && f[3] == "01" {
					n++
				}
			}
			return n
		}
		settle() // the probe connection above must be gone
		conns := map[int]*c14conn{}
		clientCfg := func(good bool) *gossh.ClientConfig {
			pw := config.HealthUser
			if !good {
				pw = "wrong"
			}
			return &gossh.ClientConfig{User: config.HealthUser, Auth: []gossh.AuthMethod{gossh.Password(pw)},
				HostKeyCallback: gossh.InsecureIgnoreHostKey(), Timeout: 2 * time.Second}
		}
		handshake := func(c *c14conn, good bool) bool {
			if c == nil || c.tcp == nil || c.client != nil {
				return false
			}
			c.tcp.SetDeadline(time.Now().Add(2 * time.Second))
			cc, chans, reqs, err := gossh.NewClientConn(c.tcp, addr, clientCfg(good))
			if err != nil {
				c.tcp.Close()
				c.tcp = nil
				return false
			}
			c.tcp.SetDeadline(time.Time{})
			c.client = gossh.NewClient(cc, chans, reqs)
			return true
		}
		var obs []string
		for _, op := range strings.Split(a[1], ",") {
			i := atoi(op[1:])
			ok := true
			switch op[0] {
			case 'T', 'A':
				tcp, err := net.DialTimeout("tcp", addr, time.Second)
				if err != nil {
					ok = false
					break
				}
				conns[i] = &c14conn{tcp: tcp}
				if op[0] == 'A' {
					ok = handshake(conns[i], true)
				}
			case 'H':
				ok = handshake(conns[i], true)
			case 'B':
				ok = handshake(conns[i], false)
			case 'S':
				ok = false
				if c := conns[i]; c != nil && c.client != nil {
					if sess, err := c.client.NewSession(); err == nil {
						// keep stdin open: an EOF on stdin ends the session and the server closes the connection
						if _, err := sess.StdinPipe(); err == nil {
							if err := sess.Shell(); err == nil {
								ok = true
							}
						}
					}
				}
			case 'Q', 'U':
				// a client that floods its session channel with requests nobody has to answer and then goes away:
				// Q = a shell request followed by 24 more shell requests, U = 25 requests of a type the server does not
				// serve ("window-change": the server ends the connection at the first one)
				ok = false
				if c := conns[i]; c != nil && c.client != nil {
					if ch, reqs, err := c.client.OpenChannel("session", nil); err == nil {
						go gossh.DiscardRequests(reqs)
						typ := "shell"
						if op[0] == 'U' {
							typ = "window-change"
						}
						if op[0] == 'Q' {
							if accepted, err := ch.SendRequest("shell", true, nil); err == nil && accepted {
								ok = true
							}
						} else {
							ok = true
						}
						for k := 0; k < 24; k++ {
							ch.SendRequest(typ, false, nil)
						}
					}
					c.client.Close()
					c.client = nil
					if c.tcp != nil {
						c.tcp.Close()
						c.tcp = nil
					}
				}
			case 'X':
				if c := conns[i]; c != nil {
					if c.client != nil {
						c.client.Close()
						c.client = nil
					}
					if c.tcp != nil {
						c.tcp.Close()
						c.tcp = nil
					}
				}
			case 'W':
				time.Sleep(time.Duration(i) * time.Millisecond)
			}
			n := settle()
			// the sockets may trail the counter by a moment; a lasting difference is reported
			e := estab()
			for k := 0; k < 60 && e != n; k++ {
				time.Sleep(5 * time.Millisecond)
				n, e = settle(), estab()
			}
			obs = append(obs, fmt.Sprintf("%d/%v/%d", n, ok, e))
		}
		for _, c := range conns {
			if c.client != nil {
				c.client.Close()
			}
			if c.tcp != nil {
				c.tcp.Close()
			}
		}
		final := settle()
		cancel()
		return strings.Join(obs, ",") + fmt.Sprintf(";final=%d", final)
	}
}
