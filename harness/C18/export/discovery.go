//go:build verif

package discovery

// VerifList is what the plugged-in discovery module VERIF returns (the documented extension point:
// "just add a method ServerListFromMODULENAME to type Discovery"): a server list that can be
// combined with a /regex/ filter, which the two built-in sources cannot.
var VerifList []string

// ServerListFromVERIF is the discovery module of the /verif harness.
func (d *Discovery) ServerListFromVERIF() []string {
	return append([]string(nil), VerifList...)
}
