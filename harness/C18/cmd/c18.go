//go:build verif

package main

import (
	"fmt"
	"math/rand"
	"os"
	"regexp"
	"strings"
	"time"

	"github.com/mimecast/dtail/internal/discovery"
)

// serverListWithIndices calls the real ServerList() and re-derives the random indices its
// shuffle drew (same seed: the wall-clock second), so that the exact order can be compared.
func serverListWithIndices(method, server string) ([]string, []int) {
	for {
		t0 := time.Now().Unix()
		d := discovery.New(method, server, discovery.Shuffle)
		list := d.ServerList()
		if time.Now().Unix() != t0 {
			continue
		}
		r := rand.New(rand.NewSource(t0))
		idx := make([]int, len(list))
		for i := range list {
			idx[i] = r.Intn(len(list) - i)
		}
		return list, idx
	}
}

func renderList(list []string, idx []int, bit string) string {
	var is, ls []string
	for _, i := range idx {
		is = append(is, fmt.Sprint(i))
	}
	for _, l := range list {
		ls = append(ls, hx([]byte(l)))
	}
	i := strings.Join(is, ",")
	if i == "" {
		i = "-"
	}
	l := strings.Join(ls, ",")
	if len(ls) == 0 {
		l = "none"
	}
	return i + ";" + bit + ";" + l
}

func init() {
	// c18.list <server> : comma list (or /regex/ filter form)
	ops["c18.list"] = func(a []string) string {
		server := string(unhex(a[0]))
		os.Chdir(tmpDir())
		bit := "-"
		if strings.HasPrefix(server, "/") && strings.HasSuffix(server, "/") && len(server) >= 2 {
			re, err := regexp.Compile(server[1 : len(server)-1])
			if err != nil {
				return "regex-error"
			}
			bit = "0"
			if re.MatchString("") {
				bit = "1"
			}
		}
		list, idx := serverListWithIndices("", server)
		return renderList(list, idx, bit)
	}
	// c18.filter <entries, comma separated> <regex> : a plugged-in discovery module supplies the entries, the
	// server argument is the /regex/ filter.  After the list: for every entry whether Go's regexp matches it.
	ops["c18.filter"] = func(a []string) string {
		var entries []string
		if s := string(unhex(a[0])); s != "" {
			entries = strings.Split(s, ",")
		}
		reStr := string(unhex(a[1]))
		re, err := regexp.Compile(reStr)
		if err != nil {
			return "regex-error"
		}
		discovery.VerifList = entries
		list, idx := serverListWithIndices("verif", "/"+reStr+"/")
		var bits strings.Builder
		for _, e := range entries {
			if re.MatchString(e) {
				bits.WriteByte('1')
			} else {
				bits.WriteByte('0')
			}
		}
		b := bits.String()
		if b == "" {
			b = "-"
		}
		return renderList(list, idx, b)
	}
	// c18.file <content> : server file
	ops["c18.file"] = func(a []string) string {
		path := tmpFile("servers.txt", unhex(a[0]))
		list, idx := serverListWithIndices("", path)
		return renderList(list, idx, "-")
	}
}

func tmpDir() string {
	tmpFile(".keep", nil)
	return workDir
}
