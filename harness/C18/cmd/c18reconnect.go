//go:build verif

package main

import (
	"context"
	"fmt"
	"net"
	"strings"
	"sync/atomic"
	"time"

	"github.com/mimecast/dtail/internal/clients"
	"github.com/mimecast/dtail/internal/config"

	gossh "golang.org/x/crypto/ssh"
)

func init() {
	// c18.reconnect <n>
	// A following client (the one that re-connects) is given n servers in host:port form, each a local peer that
	// accepts and hangs up at once; a further peer listens on the configured default SSH port and is NOT in the
	// list.  Over the first connection round and the re-connects that follow (every 2 s) every attempt must go to a
	// listed address.  Reported: whether every listed peer was contacted at least twice, and the attempts made to
	// the unlisted one.
	ops["c18.reconnect"] = func(a []string) string {
		n := atoi(a[0])
		peer := func() (int, *int32, func()) {
			l, err := net.Listen("tcp", "127.0.0.1:0")
			if err != nil {
				panic(err)
			}
			hits := new(int32)
			go func() {
				for {
					c, err := l.Accept()
					if err != nil {
						return
					}
					atomic.AddInt32(hits, 1)
					c.Close()
				}
			}()
			return l.Addr().(*net.TCPAddr).Port, hits, func() { l.Close() }
		}
		var servers []string
		var hits []*int32
		for i := 0; i < n; i++ {
			p, h, stop := peer()
			defer stop()
			servers = append(servers, fmt.Sprintf("127.0.0.1:%d", p))
			hits = append(hits, h)
		}
		defPort, defHits, stopDef := peer()
		defer stopDef()
		savedPort := config.Common.SSHPort
		config.Common.SSHPort = defPort
		defer func() { config.Common.SSHPort = savedPort }()
		args := config.Args{
			ConfigFile: "none", Logger: "none", LogLevel: "error", NoColor: true, Quiet: true, RegexStr: ".",
			SSHPort: defPort, ServersStr: strings.Join(servers, ","), UserName: "verif", What: "/var/log/none.log",
			TrustAllHosts: true, ConnectionsPerCPU: 10,
			SSHAuthMethods: []gossh.AuthMethod{gossh.Password("unused")},
		}
		client, err := clients.NewTailClient(args)
		if err != nil {
			return "client-error " + err.Error()
		}
		ctx, cancel := context.WithCancel(context.Background())
		done := make(chan struct{})
		go func() {
			defer close(done)
			client.Start(ctx, make(chan string))
		}()
		deadline := time.Now().Add(9 * time.Second)
		for time.Now().Before(deadline) {
			all := true
			for _, h := range hits {
				if atomic.LoadInt32(h) < 2 {
					all = false
				}
			}
			if all {
				break
			}
			time.Sleep(50 * time.Millisecond)
		}
		cancel()
		select {
		case <-done:
		case <-time.After(5 * time.Second):
		}
		listed := "twice"
		for _, h := range hits {
			if atomic.LoadInt32(h) < 2 {
				listed = "NOT-RECONTACTED"
			}
		}
		return fmt.Sprintf("listed=%s;unlisted=%d", listed, atomic.LoadInt32(defHits))
	}
}
