//go:build verif

package main

import (
	"fmt"
	"sort"
	"strings"

	clientHandlers "github.com/mimecast/dtail/internal/clients/handlers"
	"github.com/mimecast/dtail/internal/config"
	"github.com/mimecast/dtail/internal/mapr"
	maprclient "github.com/mimecast/dtail/internal/mapr/client"
	maprserver "github.com/mimecast/dtail/internal/mapr/server"
	serverHandlers "github.com/mimecast/dtail/internal/server/handlers"
	user "github.com/mimecast/dtail/internal/user/server"
)

// renderLine turns an abstract line (k=v&k=v) into a log line of the given format.
func renderLine(format string, kv [][2]string, header []string) string {
	switch format {
	case "generickv":
		var p []string
		for _, e := range kv {
			p = append(p, e[0]+"="+e[1])
		}
		return strings.Join(p, "|")
	case "csv":
		var p []string
		for _, h := range header {
			v := ""
			for _, e := range kv {
				if e[0] == h {
					v = e[1]
				}
			}
			p = append(p, v)
		}
		return strings.Join(p, ",")
	default:
		p := []string{"INFO", "20260101-120000", "4711", "main.go:1", "8", "10", "0", "0.10", "1h0m0s", "MAPREDUCE:T"}
		for _, e := range kv {
			p = append(p, e[0]+"="+e[1])
		}
		return strings.Join(p, "|")
	}
}

func parseAbstract(h string) [][2]string {
	var kv [][2]string
	s := string(unhex(h))
	if s == "" {
		return kv
	}
	for _, e := range strings.Split(s, "&") {
		p := strings.SplitN(e, "=", 2)
		if len(p) == 2 {
			kv = append(kv, [2]string{p[0], p[1]})
		}
	}
	return kv
}

func init() {
	// c05.agg <query> <format> <servers '/' intervals ';' lines ','>
	// the real pipeline: per server a server-side Aggregate (MakeFields, where, set, aggregate,
	// Serialize per interval) and a client-side Aggregate merging into one global group
	ops["c05.agg"] = func(a []string) string {
		qs, format := string(unhex(a[0])), a[1]
		q, err := mapr.NewQuery(qs)
		if err != nil || q == nil {
			return "query-error"
		}
		config.Server.MapreduceLogFormat = "default"
		global := mapr.NewGlobalGroupSet()
		// csv: the header is every key that occurs, sorted
		headerSet := map[string]bool{}
		type server = [][][][2]string
		var servers []server
		if a[2] != "-" {
			for _, s := range strings.Split(a[2], "/") {
				var sv server
				for _, iv := range strings.Split(s, ";") {
					var lines [][][2]string
					if iv != "" && iv != "-" {
						for _, l := range strings.Split(iv, ",") {
							kv := parseAbstract(l)
							for _, e := range kv {
								headerSet[e[0]] = true
							}
							lines = append(lines, kv)
						}
					}
					sv = append(sv, lines)
				}
				servers = append(servers, sv)
			}
		}
		var header []string
		for k := range headerSet {
			header = append(header, k)
		}
		sort.Strings(header)
		for i, sv := range servers {
			sa, err := maprserver.NewAggregate(qs)
			if err != nil {
				return "query-error"
			}
			ca := maprclient.NewAggregate(fmt.Sprintf("srv%d", i), q, global)
			first := true
			if len(a) > 3 && a[3] == "real" {
				// the real aggregator goroutines (Start) instead of the per-interval accessor
				var ivs [][]string
				for _, iv := range sv {
					var lines []string
					if format == "csv" && first {
						lines = append(lines, strings.Join(header, ","))
						first = false
					}
					for _, kv := range iv {
						lines = append(lines, renderLine(format, kv, header))
					}
					ivs = append(ivs, lines)
				}
				for _, msg := range sa.VerifRun(ivs) {
					parts := strings.SplitN("AGGREGATE|"+fmt.Sprintf("srv%d", i)+"|"+msg, "|", 3)
					if err := ca.Aggregate(parts[2]); err != nil {
						continue
					}
				}
				continue
			}
			// "wire<k>": every serialised partial result travels as the session carries it — the real server handler
			// frames it (Read into ONE reused buffer of k bytes, as io.Copy does) and the real client mapreduce handler
			// reassembles it from the chunks (Write)
			wire := 0
			if len(a) > 3 && strings.HasPrefix(a[3], "wire") {
				wire = atoi(a[3][4:])
			}
			var sh *serverHandlers.ServerHandler
			var mh *clientHandlers.MaprHandler
			var wbuf []byte
			if wire > 0 {
				u, err := user.New("verif", "local")
				if err != nil {
					panic(err)
				}
				sh = serverHandlers.NewServerHandler(u, make(chan struct{}, 2), make(chan struct{}, 2))
				mh = clientHandlers.NewMaprHandler(fmt.Sprintf("srv%d", i), q, global)
				wbuf = make([]byte, wire)
			}
			for _, iv := range sv {
				var lines []string
				if format == "csv" && first {
					lines = append(lines, strings.Join(header, ","))
					first = false
				}
				for _, kv := range iv {
					lines = append(lines, renderLine(format, kv, header))
				}
				if wire > 0 {
					for _, msg := range sa.VerifInterval(lines) {
						sh.VerifC05MaprMessages() <- msg
						for first := true; first || sh.VerifC05ReadPending() > 0; first = false {
							n, _ := sh.Read(wbuf)
							mh.Write(wbuf[:n])
						}
					}
					continue
				}
				for _, msg := range sa.VerifInterval(lines) {
					// what the client handler does with "AGGREGATE|host|<msg>"
					parts := strings.SplitN("AGGREGATE|"+fmt.Sprintf("srv%d", i)+"|"+msg, "|", 3)
					if err := ca.Aggregate(parts[2]); err != nil {
						// "aggregate message without any real data": dropped
						continue
					}
				}
			}
		}
		return global.GroupSet.VerifDumpGroups(q) + "@rows=" + global.GroupSet.VerifRows(q) + "#" + q.VerifSelectSpec() + "#" + q.VerifDump()
	}
}
