//go:build verif

package mapr

import (
	"encoding/hex"
	"fmt"
	"sort"
	"strconv"
	"strings"
)

// Accessors for the /verif harness (C05).

func v5hx(s string) string {
	if s == "" {
		return "-"
	}
	return hex.EncodeToString([]byte(s))
}

// VerifSelectSpec renders select list and group-by of a parsed query: field|storage|op,...;g1,g2
func (q *Query) VerifSelectSpec() string {
	var sel, grp []string
	for _, s := range q.Select {
		sel = append(sel, fmt.Sprintf("%s|%s|%d", v5hx(s.Field), v5hx(s.FieldStorage), int(s.Operation)))
	}
	for _, g := range q.GroupBy {
		grp = append(grp, v5hx(g))
	}
	return strings.Join(sel, ",") + ";" + strings.Join(grp, ",")
}

// VerifDumpGroups renders, for every group (sorted by key), the samples and what
// resultSelect would read for every select column: the float value and the string value.
func (g *GroupSet) VerifDumpGroups(q *Query) string {
	var keys []string
	for k := range g.sets {
		keys = append(keys, k)
	}
	sort.Strings(keys)
	var out []string
	for _, k := range keys {
		set := g.sets[k]
		var cols []string
		for _, sc := range q.Select {
			cols = append(cols, strconv.FormatFloat(set.FValues[sc.FieldStorage], 'f', -1, 64)+"|"+v5hx(set.SValues[sc.FieldStorage]))
		}
		out = append(out, fmt.Sprintf("%s:%d:%s", v5hx(k), set.Samples, strings.Join(cols, ",")))
	}
	if len(out) == 0 {
		return "empty"
	}
	return strings.Join(out, " ")
}

// VerifRows renders the rows of result() in order: the order key (%f) and the rendered cells.
// Rows with the same rendered order key are put in text order, and all rows when the query
// has no ordering clause (Go ranges over a map; the choice among tied rows is free).
func (g *GroupSet) VerifRows(q *Query) string {
	rows, _, err := g.result(q, false)
	if err != nil {
		return "error:" + err.Error()
	}
	var es [][2]string
	for _, r := range rows {
		var cells []string
		for _, v := range r.values {
			cells = append(cells, v5hx(v))
		}
		es = append(es, [2]string{v5hx(fmt.Sprintf("%f", r.orderBy)), strings.Join(cells, ",")})
	}
	str := func(e [2]string) string { return e[0] + "|" + e[1] }
	var out []string
	if q.OrderBy == "" {
		for _, e := range es {
			out = append(out, str(e))
		}
		sort.Strings(out)
		return "U:" + strings.Join(out, ";")
	}
	for i := 0; i < len(es); {
		j := i
		var run []string
		for j < len(es) && es[j][0] == es[i][0] {
			run = append(run, str(es[j]))
			j++
		}
		sort.Strings(run)
		out = append(out, run...)
		i = j
	}
	return "O:" + strings.Join(out, ";")
}
