//go:build verif

package server

import (
	"bytes"
	"context"
	"time"

	"github.com/mimecast/dtail/internal/io/line"

	"github.com/mimecast/dtail/internal/mapr"
	"github.com/mimecast/dtail/internal/mapr/logformat"
)

// VerifInterval runs the server-side pipeline for the lines of one serialisation interval
// (MakeFields, where clause, set clause, aggregate) and returns the serialised messages.
func (a *Aggregate) VerifInterval(lines []string) []string {
	group := mapr.NewGroupSet()
	for _, l := range lines {
		fields, err := a.parser.MakeFields(l)
		if err != nil {
			if err != logformat.ErrIgnoreFields {
				continue
			}
			continue
		}
		if !a.query.WhereClause(fields) {
			continue
		}
		if len(a.query.Set) > 0 {
			a.query.SetClause(fields)
		}
		a.aggregate(group, fields)
	}
	ch := make(chan string, 100000)
	group.Serialize(context.Background(), ch)
	close(ch)
	var out []string
	for m := range ch {
		out = append(out, m)
	}
	return out
}

// VerifRun runs the real server-side aggregator (Start: fieldsFromLines, set clause, aggregateAndSerialize) over the
// lines of one file delivered through a registered lines channel; between two intervals an interim result is
// requested the way the interval timer does (Serialize).  Returns every message the aggregator sent.  Where exactly
// an interim result cuts the line stream is up to the aggregator's own timing; the final result does not depend on it.
func (a *Aggregate) VerifRun(intervals [][]string) []string {
	ctx, cancel := context.WithCancel(context.Background())
	defer cancel()
	out := make(chan string, 1<<16)
	lines := make(chan *line.Line, 100)
	a.NextLinesCh <- lines
	done := make(chan struct{})
	go func() {
		a.Start(ctx, out)
		close(done)
	}()
	var count uint64
	for i, iv := range intervals {
		for _, l := range iv {
			count++
			lines <- line.New(bytes.NewBufferString(l+"\n"), count, 100, "verif")
		}
		if i < len(intervals)-1 {
			for len(lines) > 0 {
				time.Sleep(200 * time.Microsecond)
			}
			time.Sleep(3 * time.Millisecond)
			a.Serialize(ctx)
		}
	}
	close(lines)
	select {
	case <-done:
	case <-time.After(20 * time.Second):
	}
	close(out)
	var msgs []string
	for m := range out {
		msgs = append(msgs, m)
	}
	return msgs
}
