//go:build verif

package server

import (
	"context"

	"github.com/mimecast/dtail/internal/mapr"
	"github.com/mimecast/dtail/internal/mapr/logformat"
)

// VerifInterval runs the server-side pipeline for the lines of one serialisation interval
// (MakeFields, where clause, set clause, aggregate) and returns the serialised messages.
func (a *Aggregate) VerifInterval(lines []string) []string {
	group := mapr.NewGroupSet()
	for _, l := range lines {
		fields, err := a.parser.MakeFields(l)
		if err != nil {
			if err != logformat.ErrIgnoreFields {
				continue
			}
			continue
		}
		if !a.query.WhereClause(fields) {
			continue
		}
		if len(a.query.Set) > 0 {
			a.query.SetClause(fields)
		}
		a.aggregate(group, fields)
	}
	ch := make(chan string, 100000)
	group.Serialize(context.Background(), ch)
	close(ch)
	var out []string
	for m := range ch {
		out = append(out, m)
	}
	return out
}
