//go:build verif

package handlers

// VerifC05MaprMessages: the queue of serialised partial results the session's Read turns into AGGREGATE messages.
func (h *ServerHandler) VerifC05MaprMessages() chan string { return h.maprMessages }

// VerifC05ReadPending: bytes of a message still waiting for the next Read.
func (h *ServerHandler) VerifC05ReadPending() int { return h.readBuf.Len() }
