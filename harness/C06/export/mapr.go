//go:build verif

package mapr

import (
	"fmt"
	"sort"
	"strings"
)

// Accessors for the /verif harness (C06).

// VerifHold takes the global group's semaphore (as a concurrent merge or result report would)
// and returns the function that gives it back.
func (g *GlobalGroupSet) VerifHold() func() {
	g.semaphore <- struct{}{}
	return func() { <-g.semaphore }
}

// VerifCounts renders "group=value" of the first select column for every group, sorted.
func (g *GlobalGroupSet) VerifCounts(q *Query) string {
	g.semaphore <- struct{}{}
	defer func() { <-g.semaphore }()
	var keys []string
	for k := range g.sets {
		keys = append(keys, k)
	}
	sort.Strings(keys)
	var out []string
	for _, k := range keys {
		out = append(out, fmt.Sprintf("%s=%v", k, g.sets[k].FValues[q.Select[0].FieldStorage]))
	}
	if len(out) == 0 {
		return "empty"
	}
	return strings.Join(out, ",")
}
