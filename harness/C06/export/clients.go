//go:build verif

package clients

import (
	"fmt"
	"os"
	"strings"
	"sync"
	"sync/atomic"
	"time"

	"github.com/mimecast/dtail/internal/mapr"
	maprclient "github.com/mimecast/dtail/internal/mapr/client"
	"github.com/mimecast/dtail/internal/protocol"
)

// VerifC06Reporting runs the reporting side of a cumulative mapreduce client the way Start does: the periodic
// reporter (reportResults(false), here in a tight loop) runs while <nservers> connection handlers merge <msgs>
// partial results each into the global group; when the last connection has ended the final report
// (reportResults(true)) is made while the reporter is still alive.  Returns the count the final outfile accounts for.
func VerifC06Reporting(outfile string, nservers, msgs int) string {
	q, err := mapr.NewQuery("select count(x) from T group by k outfile " + outfile)
	if err != nil || q == nil {
		return "query-error"
	}
	c := &MaprClient{query: q, cumulative: true}
	c.globalGroup = mapr.NewGlobalGroupSet()
	var stop int32
	var rep sync.WaitGroup
	rep.Add(1)
	go func() {
		defer rep.Done()
		for atomic.LoadInt32(&stop) == 0 {
			c.reportResults(false)
			time.Sleep(200 * time.Microsecond)
		}
	}()
	msg := strings.Join([]string{"all", "1", "count(x)" + protocol.AggregateKVDelimiter + "1", ""}, protocol.AggregateDelimiter)
	var conns sync.WaitGroup
	for s := 0; s < nservers; s++ {
		conns.Add(1)
		go func(s int) {
			defer conns.Done()
			a := maprclient.NewAggregate(fmt.Sprintf("srv%d", s), q, c.globalGroup)
			for i := 0; i < msgs; i++ {
				if err := a.Aggregate(msg); err != nil {
					panic(err)
				}
				if i%7 == s%7 {
					time.Sleep(100 * time.Microsecond)
				}
			}
		}(s)
	}
	conns.Wait()
	c.reportResults(true) // "Received final mapreduce result"
	data, _ := os.ReadFile(outfile)
	atomic.StoreInt32(&stop, 1)
	rep.Wait()
	lines := strings.Split(strings.TrimSpace(string(data)), "\n")
	if len(lines) < 2 {
		return fmt.Sprintf("outfile has %d line(s)", len(lines))
	}
	return lines[len(lines)-1]
}
