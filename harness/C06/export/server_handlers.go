//go:build verif

package handlers

// VerifC06MaprMessages: the queue of serialised partial results the session's Read turns into AGGREGATE messages.
func (h *ServerHandler) VerifC06MaprMessages() chan string { return h.maprMessages }

// VerifC06ReadPending: bytes of a message still waiting for the next Read.
func (h *ServerHandler) VerifC06ReadPending() int { return h.readBuf.Len() }
