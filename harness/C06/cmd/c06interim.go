//go:build verif

package main

import (
	"fmt"
	"os"
	"path/filepath"
	"syscall"
	"time"

	"github.com/mimecast/dtail/internal/config"
	serverHandlers "github.com/mimecast/dtail/internal/server/handlers"
	user "github.com/mimecast/dtail/internal/user/server"
)

func init() {
	// c06.interim <groups> <extra>: one server session of a mapreduce run with an interval of one second over one FIFO file.
	// <groups> lines with distinct group keys are written, the client does not read; once the interval has passed (the interim
	// result is being handed out, far more messages than the message queue holds) <extra> more lines follow and the file ends.
	// Only then does the client read everything.  Every line must be in what it gets: the sum of all counts, the number of
	// distinct groups, and how the session ended.
	ops["c06.interim"] = func(a []string) string {
		groups, extra := atoi(a[0]), atoi(a[1])
		dir, err := os.MkdirTemp(os.Getenv("VERIF_WORK"), "c06i-")
		if err != nil {
			panic(err)
		}
		defer os.RemoveAll(dir)
		p := filepath.Join(dir, "f.log")
		if err := syscall.Mkfifo(p, 0o644); err != nil {
			panic(err)
		}
		w, err := os.OpenFile(p, os.O_RDWR, 0)
		if err != nil {
			panic(err)
		}
		config.Server.MaxLineLength = 1024
		config.Server.MapreduceLogFormat = "default"
		u, _ := user.New(config.ScheduleUser, "local")
		h := serverHandlers.NewServerHandler(u, make(chan struct{}, 2), make(chan struct{}, 2))
		sess := newC06Session(h)
		sess.send("map select count(k) from T group by g interval 1 logformat generickv")
		sess.send("cat: " + p + " regex:noop ")
		time.Sleep(200 * time.Millisecond)
		for k := 0; k < groups; k++ {
			fmt.Fprintf(w, "g=key%d|k=%d\n", k, k)
		}
		time.Sleep(1700 * time.Millisecond) // the interval passes: the interim result is on its way, nobody reads
		for k := 0; k < extra; k++ {
			fmt.Fprintf(w, "g=late%d|k=%d\n", k, k)
		}
		time.Sleep(150 * time.Millisecond)
		w.Close()
		time.Sleep(300 * time.Millisecond)
		for sess.readFrame(2500*time.Millisecond) && !sess.sawSyn {
		}
		os.Remove(p)
		h.Shutdown()
		total := 0
		for _, c := range sess.counts {
			total += c
		}
		return fmt.Sprintf("lines=%d;groups=%d;closed=%v", total, len(sess.counts), sess.sawSyn)
	}
}
