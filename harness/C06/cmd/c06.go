//go:build verif

package main

import (
	"bytes"
	"context"
	"encoding/base64"
	"fmt"
	"os"
	"path/filepath"
	"sort"
	"strings"
	"sync"
	"syscall"
	"time"

	"github.com/mimecast/dtail/internal/clients"
	clientHandlers "github.com/mimecast/dtail/internal/clients/handlers"
	"github.com/mimecast/dtail/internal/config"
	"github.com/mimecast/dtail/internal/io/line"
	"github.com/mimecast/dtail/internal/mapr"
	maprserver "github.com/mimecast/dtail/internal/mapr/server"
	serverHandlers "github.com/mimecast/dtail/internal/server/handlers"
	user "github.com/mimecast/dtail/internal/user/server"
)

const c06query = "select count(k) from T group by f logformat generickv"

func c06file(dir string, i, n int) string {
	var sb strings.Builder
	for k := 1; k <= n; k++ {
		sb.WriteString(fmt.Sprintf("f=%d|k=%d\n", i, k))
	}
	p := filepath.Join(dir, fmt.Sprintf("f%d.log", i))
	os.WriteFile(p, []byte(sb.String()), 0o644)
	return p
}

func init() {
	// c06.merge <nservers> <steps>: the client side with a controllable global semaphore.
	// steps: A<i>:<group>:<count> server i's handler receives a partial; H hold the semaphore (a concurrent
	// merge / report is in progress); G give it back.  Reports the global group at the end.
	ops["c06.merge"] = func(a []string) string {
		q, err := mapr.NewQuery("select count(k) from T group by f")
		if err != nil {
			panic(err)
		}
		global := mapr.NewGlobalGroupSet()
		// one worker per server: a connection's handler delivers its messages one after the other
		// (a blocked merge blocks that connection only), exactly like the client's per-connection Write
		queues := map[int]chan string{}
		var wg sync.WaitGroup
		var pending sync.WaitGroup
		var release func()
		for _, st := range strings.Split(a[1], ",") {
			switch st[0] {
			case 'H':
				if release == nil {
					release = global.VerifHold()
				}
			case 'G':
				if release != nil {
					release()
					release = nil
					pending.Wait() // every delivery that was waiting for the semaphore completes
				}
			case 'A':
				p := strings.Split(st[1:], ":")
				i := atoi(p[0])
				if queues[i] == nil {
					queues[i] = make(chan string, 1024)
					// the connection of server i as the session carries it: the real server handler frames each partial
					// result (Read into one reused buffer, as io.Copy does) and the real client mapreduce handler
					// reassembles it (Write) and merges it
					u, err := user.New("verif", "local")
					if err != nil {
						panic(err)
					}
					sh := serverHandlers.NewServerHandler(u, make(chan struct{}, 2), make(chan struct{}, 2))
					mh := clientHandlers.NewMaprHandler(fmt.Sprintf("srv%d", i), q, global)
					buf := make([]byte, []int{5, 16, 64, 9}[i%4])
					wg.Add(1)
					go func(ch chan string) {
						defer wg.Done()
						for m := range ch {
							sh.VerifC06MaprMessages() <- m
							for first := true; first || sh.VerifC06ReadPending() > 0; first = false {
								n, _ := sh.Read(buf)
								mh.Write(buf[:n])
							}
							pending.Done()
						}
					}(queues[i])
				}
				pending.Add(1)
				queues[i] <- fmt.Sprintf("%s∥%s∥count(k)≔%s∥", p[1], p[2], p[2])
				if release == nil {
					pending.Wait()
				} else {
					time.Sleep(30 * time.Millisecond) // the delivery blocks on the held semaphore
				}
			}
		}
		if release != nil {
			release()
		}
		for _, ch := range queues {
			close(ch)
		}
		wg.Wait()
		return global.VerifCounts(q)
	}

	// c06.server <catLimit> <files n0+n1+..> <script>: one server session of a mapreduce run.
	// M sends the map command, C<i> the cat command for file i, W<ms> waits, A waits until the
	// aggregator has sent a partial result, E reads until the close handshake or 2.5 s of silence.
	// Reports the per-file line counts the server's partial results add up to, and how the session ended.
	ops["c06.server"] = func(a []string) string {
		limit := atoi(a[0])
		dir, err := os.MkdirTemp(os.Getenv("VERIF_WORK"), "c06-")
		if err != nil {
			panic(err)
		}
		defer os.RemoveAll(dir)
		var files []string
		for i, n := range strings.Split(a[1], "+") {
			files = append(files, c06file(dir, i, atoi(n)))
		}
		config.Server.MaxLineLength = 1024
		config.Server.MapreduceLogFormat = "default"
		u, _ := user.New("verif", "local")
		h := serverHandlers.NewServerHandler(u, make(chan struct{}, limit), make(chan struct{}, limit))
		counts := map[string]int{}
		sawSyn, aggMsgs := false, 0
		buf := make([]byte, 32*1024)
		var pending []byte
		send := func(cmd string) {
			go h.Write([]byte("protocol 4.1 base64 " + base64.StdEncoding.EncodeToString([]byte(cmd)) + ";"))
			time.Sleep(3 * time.Millisecond)
		}
		readFrame := func(maxWait time.Duration) bool {
			deadline := time.Now().Add(maxWait)
			for !bytes.Contains(pending, []byte{0xAC}) {
				if time.Now().After(deadline) {
					return false
				}
				n, err := h.Read(buf)
				if err != nil {
					return false
				}
				pending = append(pending, buf[:n]...)
			}
			i := bytes.IndexByte(pending, 0xAC)
			frame := string(pending[:i])
			pending = pending[i+1:]
			switch {
			case strings.HasPrefix(frame, ".syn"):
				sawSyn = true
			case strings.HasPrefix(frame, "AGGREGATE|"):
				aggMsgs++
				p := strings.SplitN(frame, "|", 3)
				parts := strings.Split(p[2], "∥")
				if len(parts) >= 3 {
					for _, kv := range parts[2:] {
						if strings.HasPrefix(kv, "count(k)≔") {
							counts[parts[0]] += atoi(strings.TrimPrefix(kv, "count(k)≔"))
						}
					}
				}
			}
			return true
		}
		for _, op := range strings.Split(a[2], ",") {
			switch op[0] {
			case 'M':
				send("map " + c06query)
			case 'C':
				send("cat: " + files[atoi(op[1:])] + " regex:noop ")
			case 'W':
				time.Sleep(time.Duration(atoi(op[1:])) * time.Millisecond)
			case 'A':
				for aggMsgs == 0 && readFrame(8*time.Second) {
				}
			case 'E':
				for !sawSyn && readFrame(2500*time.Millisecond) {
				}
			}
		}
		h.Shutdown()
		var keys []string
		for k := range counts {
			keys = append(keys, k)
		}
		sort.Strings(keys)
		var out []string
		for _, k := range keys {
			out = append(out, fmt.Sprintf("%s=%d", k, counts[k]))
		}
		res := strings.Join(out, ",")
		if res == "" {
			res = "empty"
		}
		return fmt.Sprintf("%s;closed=%v", res, sawSyn)
	}

	// c06.fifo <nfiles> <script>: one server session of a mapreduce run whose files are FIFOs, so that the
	// script decides when every reader writes a line and when its file ends.  M the map command, C<i> the cat
	// command for file i (registers its channel with the aggregator), P<i> one more line in file i, X<i> file
	// i ends.  After every op the session is left alone until the aggregator (which sleeps 100 ms whenever it
	// finds nothing) has settled.  Reports the per-file counts of all partial results and how the session ended.
	ops["c06.fifo"] = func(a []string) string {
		nfiles := atoi(a[0])
		dir, err := os.MkdirTemp(os.Getenv("VERIF_WORK"), "c06f-")
		if err != nil {
			panic(err)
		}
		defer os.RemoveAll(dir)
		var files []string
		var writers []*os.File
		written := make([]int, nfiles)
		for i := 0; i < nfiles; i++ {
			p := filepath.Join(dir, fmt.Sprintf("f%d.log", i))
			if err := syscall.Mkfifo(p, 0o644); err != nil {
				panic(err)
			}
			w, err := os.OpenFile(p, os.O_RDWR, 0)
			if err != nil {
				panic(err)
			}
			files = append(files, p)
			writers = append(writers, w)
		}
		config.Server.MaxLineLength = 1024
		config.Server.MapreduceLogFormat = "default"
		// the background user may read anything, also a FIFO (other users: regular files only)
		u, _ := user.New(config.ScheduleUser, "local")
		h := serverHandlers.NewServerHandler(u, make(chan struct{}, nfiles+1), make(chan struct{}, nfiles+1))
		sess := newC06Session(h)
		settle := time.Duration(150+110*nfiles) * time.Millisecond
		for _, op := range strings.Split(a[1], ",") {
			switch op[0] {
			case 'M':
				sess.send("map " + c06query)
			case 'C':
				sess.send("cat: " + files[atoi(op[1:])] + " regex:noop ")
			case 'P':
				i := atoi(op[1:])
				written[i]++
				fmt.Fprintf(writers[i], "f=%d|k=%d\n", i, written[i])
			case 'X':
				i := atoi(op[1:])
				if writers[i] != nil {
					writers[i].Close()
					writers[i] = nil
				}
			}
			time.Sleep(settle)
		}
		for sess.readFrame(2500*time.Millisecond) && !sess.sawSyn {
		}
		for i, w := range writers {
			if w != nil {
				os.Remove(files[i])
				w.Close()
			}
		}
		h.Shutdown()
		return sess.report()
	}
}

type c06Session struct {
	h interface {
		Read([]byte) (int, error)
		Write([]byte) (int, error)
	}
	counts  map[string]int
	sawSyn  bool
	aggMsgs int
	buf     []byte
	pending []byte
}

func newC06Session(h interface {
	Read([]byte) (int, error)
	Write([]byte) (int, error)
}) *c06Session {
	return &c06Session{h: h, counts: map[string]int{}, buf: make([]byte, 32*1024)}
}

func (s *c06Session) send(cmd string) {
	go s.h.Write([]byte("protocol 4.1 base64 " + base64.StdEncoding.EncodeToString([]byte(cmd)) + ";"))
	time.Sleep(3 * time.Millisecond)
}

func (s *c06Session) readFrame(maxWait time.Duration) bool {
	deadline := time.Now().Add(maxWait)
	for !bytes.Contains(s.pending, []byte{0xAC}) {
		if time.Now().After(deadline) {
			return false
		}
		n, err := s.h.Read(s.buf)
		if err != nil {
			return false
		}
		s.pending = append(s.pending, s.buf[:n]...)
	}
	i := bytes.IndexByte(s.pending, 0xAC)
	frame := string(s.pending[:i])
	s.pending = s.pending[i+1:]
	switch {
	case strings.HasPrefix(frame, ".syn"):
		s.sawSyn = true
	case strings.HasPrefix(frame, "AGGREGATE|"):
		s.aggMsgs++
		p := strings.SplitN(frame, "|", 3)
		parts := strings.Split(p[2], "∥")
		if len(parts) >= 3 {
			for _, kv := range parts[2:] {
				if strings.HasPrefix(kv, "count(k)≔") {
					s.counts[parts[0]] += atoi(strings.TrimPrefix(kv, "count(k)≔"))
				}
			}
		}
	}
	return true
}

func (s *c06Session) report() string {
	var keys []string
	for k := range s.counts {
		keys = append(keys, k)
	}
	sort.Strings(keys)
	var out []string
	for _, k := range keys {
		out = append(out, fmt.Sprintf("%s=%d", k, s.counts[k]))
	}
	res := strings.Join(out, ",")
	if res == "" {
		res = "empty"
	}
	return fmt.Sprintf("%s;closed=%v", res, s.sawSyn)
}

func init() {
	// c06.queue <nsmall> <slowlines>: the real server-side Aggregate with the harness acting as the file
	// readers exactly as readCommand.read() does (make a line channel, register it through NextLinesCh —
	// which blocks while the queue is full —, write the lines, close).  One file is still being read when
	// the aggregator starts (registered first, open, empty); nsmall one-line files follow, those that do
	// not fit into the queue wait.  Once all are registered the slow file delivers its lines and ends.
	ops["c06.queue"] = func(a []string) string {
		nsmall, slowLines := atoi(a[0]), atoi(a[1])
		config.Server.MapreduceLogFormat = "default"
		agg, err := maprserver.NewAggregate("select count($line) group by $hostname")
		if err != nil {
			panic(err)
		}
		newLine := func(s string) *line.Line { return line.New(bytes.NewBufferString(s), 1, 100, "verif") }
		small := func(i int) chan *line.Line {
			ch := make(chan *line.Line, 100)
			ch <- newLine(fmt.Sprintf("small file %d", i))
			close(ch)
			return ch
		}
		slow := make(chan *line.Line, 100)
		agg.NextLinesCh <- slow
		i := 1
		for ; i <= nsmall && len(agg.NextLinesCh) < cap(agg.NextLinesCh); i++ {
			agg.NextLinesCh <- small(i)
		}
		var registered sync.WaitGroup
		for ; i <= nsmall; i++ {
			registered.Add(1)
			go func(i int) {
				defer registered.Done()
				agg.NextLinesCh <- small(i)
			}(i)
		}
		time.Sleep(100 * time.Millisecond) // the late readers now wait for room in the queue
		ctx, cancel := context.WithCancel(context.Background())
		defer cancel()
		messages := make(chan string, 100000)
		finished := make(chan struct{})
		go func() {
			agg.Start(ctx, messages)
			close(finished)
		}()
		go func() {
			registered.Wait()
			for k := 0; k < slowLines; k++ {
				slow <- newLine(fmt.Sprintf("slow file line %d", k))
			}
			close(slow)
		}()
		// the aggregator sleeps 100 ms whenever a channel has nothing for it
		deadline := time.Duration(nsmall+slowLines+10)*250*time.Millisecond + 5*time.Second
		state := "terminated"
		select {
		case <-finished:
		case <-time.After(deadline):
			state = "stuck"
		}
		total := 0
		for {
			select {
			case m := <-messages:
				parts := strings.Split(m, "∥")
				if len(parts) >= 2 {
					total += atoi(parts[1])
				}
				continue
			default:
			}
			break
		}
		return fmt.Sprintf("%s;count=%d", state, total)
	}
}

func init() {
	// c06.report <servers> <messages per server> <rounds>
	// the client's reporting path: periodic reporter and final report against connection handlers that merge their
	// partial results (see VerifC06Reporting); the final outfile must account for every message of every server
	ops["c06.report"] = func(a []string) string {
		ns, msgs, rounds := atoi(a[0]), atoi(a[1]), atoi(a[2])
		dir, err := os.MkdirTemp(os.Getenv("VERIF_WORK"), "c06r-")
		if err != nil {
			panic(err)
		}
		defer os.RemoveAll(dir)
		want := fmt.Sprint(ns * msgs)
		for r := 0; r < rounds; r++ {
			got := clients.VerifC06Reporting(filepath.Join(dir, fmt.Sprintf("out%d.csv", r)), ns, msgs)
			if got != want {
				return fmt.Sprintf("round %d: the final outfile accounts for %s of %s", r, got, want)
			}
		}
		return "complete"
	}
}
